import json
NA = {
"C01":"pure arithmetic identity (weight x normalisation = integrand x Jacobian) over inputs and configurations; no schedule, clock, fault, I/O or call history for a simulator to control",
"C02":"pointwise geometric identities of throw(u) at given random numbers; a pure function of its inputs",
"C03":"algebraic relation between event columns and three scalars; permutation invariance there is an input relation, not a schedule",
"C04":"pointwise inverse-transform identity F(z)=u of a pure interpolation; nothing to schedule, crash or reorder",
"C06":"numerical conformance of the Cherenkov kernel to its physical model: differential testing over a 3-D input box, no nondeterminism or fault involved",
"C07":"closed-form kinematic relations and monotonicity of pure functions",
"C08":"relations between two evaluations of a stateless signal chain at different detector parameters; pure",
"C09":"pointwise relation between cloud-top altitude and kernel output plus a table look-up by coordinates; pure",
"C12":"closed-form inverse CDF and two normalisation constants; pure",
"C13":"the 'time' there is an astronomical input, not a clock; masks and triangle relations are pointwise in (RA, Dec, t, position)",
"C15":"fault-free write-then-read of one small TOML file and value-level unit parsing; no fault, ordering or concurrency in the statement",
"C16":"fault-free FITS write/read identity plus a header mapping; the crash-related behaviour of the results file is C17, which is claimed",
"C18":"fault-free file identity, interpolation identities and a finite audit of shipped data files; pure",
"C19":"two real functions and their inverses near seven boundaries; pure",
"C20":"linearity and sqrt(N) scaling relations between evaluations; the random phases are inputs; pure",
}
checks = json.load(open('/verif/manifest_checks.json'))
m = {
 "version":1,
 "setup_cmd":"/venv/bin/python /verif/dst/env.py --check",
 "hooks":{"guard":"NUSPACESIM_VERIF","enable":"no hook exists in /repo: every seam is reached from outside by configuration or by replacing module attributes at run time (DESIGN.md §2); the guard name is reserved and unused","baseline_off_cmd":"cd /repo && /venv/bin/python -m pytest -ra -q -p no:cacheprovider --timeout=900 --continue-on-collection-errors","source_commits":[],"add_only":True},
 "engines":[
  {"name":"schedsim","path":"dst/schedsim.py","serves_properties":["C10","C14"],"kind_free_text":"deterministic simulation: dask's real get_async driven by a simulated executor (seeded completion orders, worker death, stragglers), baton-passed real threads pre-empted on sys.settrace line events, virtual clock and progress-bar timer"},
  {"name":"crashsim","path":"dst/crashsim.py","serves_properties":["C17"],"kind_free_text":"deterministic simulation with fault injection: forked compute() killed (os._exit) or failed (exception raised from the trace function) at seeded traced steps; disk state compared with reference prefixes"},
  {"name":"histsim","path":"dst/histsim.py","serves_properties":["C05","C11"],"kind_free_text":"seeded call histories on long-lived stage objects against memoryless reference models"},
 ],
 "checks":checks,
 "notes":"Technique family: deterministic simulation with fault injection. One integer (VERIF_SEED) decides every run; failures are reported with a minimised choice trace as replay file (bin/check --replay <file>). See DESIGN.md.",
 "not_applicable":[{"property_id":k,"reason":v} for k,v in sorted(NA.items())],
}
claimed = {c["property_id"] for c in checks}
for pid in ("C05","C10","C11","C14","C17"):
    if pid not in claimed:
        m["not_applicable"].append({"property_id":pid,"reason":"check under construction in this session (claimed in DESIGN.md; not yet registered)"})
m["not_applicable"].sort(key=lambda x:x["property_id"])
json.dump(m, open('/verif/MANIFEST.json','w'), indent=1)
import jsonschema
jsonschema.validate(m, json.load(open('/root/.vp/MANIFEST.schema.json')))
print('manifest ok', sorted(claimed))
