"""Command-line entry: check <Cxx> <quick|thorough> | --replay <file> | digests ... | selftest."""

from __future__ import annotations

import json
import os
import subprocess
import sys
import time
from collections import Counter

from . import env


def _seed():
    try:
        return int(os.environ.get("VERIF_SEED", "0"))
    except ValueError:
        return 0


def _scale_plan(plan):
    sc = float(os.environ.get("VERIF_SCALE", "1"))
    return [(f, max(1, int(n * sc)), c) for (f, n, c) in plan]


def optimize_pass(prop, tier):
    """A second, smaller pass of the same check in an interpreter started with -O (assert
    statements stripped, __debug__ False): how Python is started is a dimension too.  Returns
    (rc, info, violation_lines)."""
    if os.environ.get("VERIF_OPT_PASS") or os.environ.get("VERIF_NO_OPT_PASS") or sys.flags.optimize:
        return 0, None, []
    e = dict(os.environ, PYTHONOPTIMIZE="1", VERIF_OPT_PASS="1", VERIF_SCALE=os.environ.get("VERIF_OPT_SCALE", "0.12"),
             VERIF_BUDGET=os.environ.get("VERIF_OPT_BUDGET", "60" if tier == "quick" else "600"))
    p = subprocess.run([sys.executable, os.path.join(env.VERIF_DIR, "bin", "check"), prop, tier], capture_output=True, text=True, env=e, timeout=7000)
    lines = [l for l in p.stdout.splitlines() if l.startswith("VIOLATION ")]
    runs = [l for l in p.stdout.splitlines() if l.startswith("[dst] ") and " runs, " in l]
    info = {"interpreter": "python -O (PYTHONOPTIMIZE=1)", "exit": p.returncode, "summary": runs[-1][6:] if runs else None}
    if p.returncode not in (0, 1):
        sys.stderr.write(p.stdout[-1500:] + p.stderr[-1500:])
    else:
        for l in p.stdout.splitlines():
            if l.startswith("[dst] violation") or l.startswith("KNOWN-FINDING"):
                print("[-O pass] " + l)
    return p.returncode, info, lines


def cmd_check(prop, tier):
    rc0, info, lines = optimize_pass(prop, tier)
    if rc0 == 2:
        print(f"HARNESS-ERROR property={prop}: the python -O pass failed")
        return 2
    rc = _cmd_check(prop, tier, info)
    for l in lines:
        print(l)
    return max(rc, 1 if lines else 0)


def _cmd_check(prop, tier, opt_info=None):
    from . import core, registry

    t0 = time.monotonic()
    seed = _seed()
    os.environ["VERIF_SEED"] = str(seed)
    os.environ["VERIF_TIER"] = tier
    print(f"[dst] property={prop} tier={tier} VERIF_SEED={seed} repo={env.repo_root()} workers={core.nworkers()}", flush=True)
    mod = registry.load(prop)
    mod.META["python_optimize_pass"] = opt_info
    known = core.load_known_findings()
    if hasattr(mod, "run_check"):
        # engines with their own batch structure (crashsim)
        return mod.run_check(tier, seed, known)
    plan = _scale_plan(mod.PLAN[tier])
    budget = float(os.environ.get("VERIF_BUDGET", mod.BUDGET[tier]))
    mod.META["planned_runs"] = {"plan": {f: n for f, n, _ in plan}, "wall_budget_s": budget,
                                "note": "runs stop being dealt when the wall budget is exceeded; 'evaluations' is what was actually executed"}
    results, herrs, wall = core.run_batch(prop, plan, seed, tier, budget)
    return finish(prop, tier, seed, mod, results, herrs, time.monotonic() - t0, known)


def finish(prop, tier, seed, mod, results, herrs, wall, known, extra_lines=()):
    from . import core

    if herrs:
        print(f"HARNESS-ERROR property={prop}: {len(herrs)} error(s); first:\n{herrs[0]}", flush=True)
        return 2
    if not results:
        print(f"HARNESS-ERROR property={prop}: no run executed")
        return 2
    viols = [r for r in results if r["violation"] is not None]
    known_hits = Counter()
    for r in results:
        known_hits.update(r.get("known_hits", {}))
    rc = 0
    lines = []
    unconfirmed = []
    viols.sort(key=lambda r: (0 if r.get("minimized") else 1, r["family"], r["idx"]))
    for r in viols[:3]:
        m = r.get("minimized") or r
        path = core.write_replay(prop, r["family"], r["idx"], seed, tier, r, m, r.get("shrink_runs", 0), env.repo_state())
        ok = confirm_replay(path)
        if ok is None and r["family"] in getattr(mod, "OBSERVATIONAL", ()):
            # real-scheduler conformance stage: observation of real threads/processes, whose
            # interleaving the harness does not decide; the worker already re-ran it 5 times
            print(f"[dst] observational run did not reproduce on replay (its reproduction rate is in the message)")
            ok = False
        elif ok is None and r.get("minimized"):
            # seen in the search AND seen again when the worker re-ran the same choice trace in a
            # second isolated child, but not in a fresh interpreter: the failure depends on process
            # state the simulator does not own (object addresses recycled by the allocator, say).
            # It happened on the real code twice, so it is reported; the replay file says so.
            print("[dst] NOTE: the violation was re-observed in a second isolated run of the same choice trace but did not "
                  "reproduce in a fresh interpreter (address- or allocator-dependent behaviour); replay may need several attempts")
            try:
                doc = json.load(open(path))
                doc["reproduced_in_fresh_interpreter"] = False
                json.dump(doc, open(path, "w"), indent=1, default=str)
            except Exception:  # noqa: BLE001
                pass
            ok = False
        elif ok is None and lines:
            # a further violating run (found by another worker, never re-run) that does not
            # reproduce: not reported; the confirmed one above stands
            print(f"[dst] (an additional violating run, index {r['idx']}, did not reproduce on replay and is not reported)")
            try:
                os.remove(path)
            except OSError:
                pass
            continue
        elif ok is None:
            unconfirmed.append(path)
            continue
        lines.append(f"VIOLATION property={prop} replay={path}")
        print(f"[dst] violation check={m['violation']['check']}: {m['violation']['message']}")
        print(f"[dst] minimised to {len(m['values'])} choices from {len(r['values'])} ({r.get('shrink_runs', 0)} shrink runs); digest match on replay: {ok}")
        rc = 1
    if unconfirmed and not lines:
        print(f"HARNESS-ERROR property={prop}: violating run(s) did not reproduce on replay: {unconfirmed[:3]}")
        return 2
    for k in known:
        if k["property"] == prop:
            key = f"{k['check']} {k['sig']}"
            if known_hits.get(key):
                print(f"KNOWN-FINDING: property={prop} {k['what']} [{key}; seen in {known_hits[key]} run(s)]")
    n = len(results)
    nt = len({(r["family"], r["digest"]) for r in results if r["nontrivial"]})
    if rc == 0 and nt < 2:
        # a clean exit that explored nothing is not a result (every configuration skipped, every
        # fault missed ...): never exit 0 on it
        print(f"HARNESS-ERROR property={prop}: {n} runs but only {nt} distinct non-trivial one(s): nothing was really explored")
        return 2
    if not os.environ.get("VERIF_OPT_PASS"):
        core.write_evidence(prop, tier, seed, mod.LEVEL, results, wall, mod.META, len(viols), dict(known_hits))
    print(f"[dst] {n} runs, {nt} distinct non-trivial, {wall:.1f}s, violations={len(viols)}")
    for l in list(extra_lines) + lines:
        print(l)
    sys.stdout.flush()
    return rc


def confirm_replay(path):
    """Replays in a fresh interpreter.  Returns digest-match bool if the same check failed,
    None if it did not reproduce."""
    p = subprocess.run(
        [sys.executable, os.path.join(env.VERIF_DIR, "bin", "check"), "--replay", path, "--quiet"],
        capture_output=True, text=True, timeout=900,
    )
    if p.returncode != 1:
        sys.stderr.write(p.stdout[-2000:] + p.stderr[-2000:])
        return None
    return "digest_match=True" in p.stdout


def cmd_replay(path, quiet=False):
    from . import core, registry

    doc = json.load(open(path))
    os.environ["VERIF_SEED"] = str(doc["verif_seed"])
    os.environ["VERIF_TIER"] = doc["tier"]
    prop = doc["property"]
    mod = registry.load(prop)
    if hasattr(mod, "replay"):
        return mod.replay(doc, path, quiet)
    mod.warmup(doc["tier"])
    scn = mod.FAMILIES[doc["family"]]
    r = core.run_once(scn, prop, doc["family"], doc["run_index"], core.Chooser(values=doc["values"]), doc["tier"])
    v = r["violation"]
    if v is not None and v["check"] == doc["violation"]["check"]:
        print(f"REPRODUCED check={v['check']} digest_match={r['digest'] == doc['digest']}")
        if not quiet:
            print(f"  {v['message']}")
            for e in r["events_head"]:
                print("   ", e)
        print(f"VIOLATION property={prop} replay={path}")
        return 1
    print(f"NOT-REPRODUCED expected check={doc['violation']['check']} got={v['check'] if v else None}")
    return 3


def cmd_digests(prop, n, workers, tier="quick"):
    """Print {family: [digest...]} for run indices 0..n-1 (used by the determinism self-test)."""
    from . import core, registry

    os.environ["VERIF_WORKERS"] = str(workers)
    seed = _seed()
    os.environ["VERIF_SEED"] = str(seed)
    mod = registry.load(prop)
    if hasattr(mod, "digests"):
        out = mod.digests(n, seed, tier)
    else:
        plan = [(f, n, 4) for f in mod.FAMILIES]
        results, herrs, wall = core.run_batch(prop, plan, seed, tier, 3600, stop_on_violation=False)
        if herrs:
            print(herrs[0], file=sys.stderr)
            return 2
        out = {}
        for r in results:
            out.setdefault(r["family"], []).append([r["idx"], r["digest"], r["violation"]["check"] if r["violation"] else None])
    print("DIGESTS " + json.dumps(out, sort_keys=True))
    return 0


def cmd_selftest(props, n=24):
    """Determinism: every run index twice, in fresh interpreters, under PYTHONHASHSEED=0 and a
    different one, with 1 and with 8 pool workers; digests must be identical."""
    rc = 0
    for prop in props:
        outs = []
        for hs, w in (("0", 8), ("4242", 1 if n <= 16 else 3), ("99", 16)):
            e = dict(os.environ, PYTHONHASHSEED=hs, VERIF_NO_REEXEC="1")
            p = subprocess.run(
                [sys.executable, os.path.join(env.VERIF_DIR, "bin", "check"), "digests", prop, str(n), str(w)],
                capture_output=True, text=True, env=e, timeout=3000,
            )
            line = [l for l in p.stdout.splitlines() if l.startswith("DIGESTS ")]
            if p.returncode != 0 or not line:
                print(f"SELFTEST {prop}: digests run failed (hashseed={hs} workers={w}) rc={p.returncode}\n{p.stdout[-1500:]}\n{p.stderr[-1500:]}")
                rc = 2
                break
            outs.append(json.loads(line[0][8:]))
        if rc:
            continue
        same = all(o == outs[0] for o in outs[1:])
        tot = sum(len(v) for v in outs[0].values())
        print(f"SELFTEST {prop}: {tot} runs x {len(outs)} configurations: {'identical' if same else 'DIFFERENT'}")
        if not same:
            for fam in outs[0]:
                for a, b in zip(outs[0][fam], outs[1].get(fam, [])):
                    if a != b:
                        print("   first difference:", fam, a, b)
                        break
            rc = 2
    return rc


def hashseed_for(seed: int) -> str:
    return str(1 + (int(seed) * 7919) % 4093)


def ensure_hashseed(seed, argv):
    """String hashing is a source of nondeterminism (set iteration order): the interpreter is
    re-executed under a PYTHONHASHSEED derived from VERIF_SEED so that one seed is one
    execution.  The self-test overrides it on purpose (VERIF_NO_REEXEC)."""
    want = hashseed_for(seed)
    if os.environ.get("VERIF_NO_REEXEC") or os.environ.get("PYTHONHASHSEED") == want:
        return
    e = dict(os.environ, PYTHONHASHSEED=want)
    os.execve(sys.executable, [sys.executable, os.path.join(env.VERIF_DIR, "bin", "check")] + list(argv), e)


def main(argv):
    env.pin()
    if not argv:
        print(__doc__)
        return 2
    if argv[0] == "--replay":
        _doc = json.load(open(argv[1]))
        if _doc.get("python_optimize") and not sys.flags.optimize:
            os.execve(sys.executable, [sys.executable, os.path.join(env.VERIF_DIR, "bin", "check")] + list(argv), dict(os.environ, PYTHONOPTIMIZE="1", VERIF_OPT_PASS="1"))
        ensure_hashseed(_doc["verif_seed"], argv)
        return cmd_replay(argv[1], quiet="--quiet" in argv)
    if argv[0] == "digests":
        return cmd_digests(argv[1], int(argv[2]), int(argv[3]), argv[4] if len(argv) > 4 else "quick")
    if argv[0] == "selftest":
        from .registry import PROPS

        props = [a for a in argv[1:] if a in PROPS] or sorted(PROPS)
        ns = [int(a) for a in argv[1:] if a.isdigit()]
        return cmd_selftest(props, ns[0] if ns else 24)
    prop = argv[0]
    ensure_hashseed(_seed(), argv)
    tier = argv[1] if len(argv) > 1 else os.environ.get("VERIF_TIER", "quick")
    if tier not in ("quick", "thorough"):
        tier = "quick"
    try:
        return cmd_check(prop, tier)
    except Exception:
        import traceback

        print(f"HARNESS-ERROR property={prop}:\n{traceback.format_exc()}")
        return 2
