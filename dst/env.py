"""Environment pins, repository path, zsteps fallback, warm-up.

Must be imported (and `pin()` called) before numpy / nuspacesim are imported.
Nothing here draws from a PRNG or reads a clock.
"""

from __future__ import annotations

import math
import os
import sys
import types

VERIF_DIR = os.path.dirname(os.path.dirname(os.path.abspath(__file__)))
GUARD = "NUSPACESIM_VERIF"  # reserved; no hook in /repo uses it (DESIGN §2)

_state = {"pinned": False, "zsteps": None, "repo": None}


def repo_root() -> str:
    return os.environ.get("VERIF_REPO", "/repo")


def repo_src() -> str:
    return os.path.join(repo_root(), "src")


def pin() -> None:
    """Pin thread pools, byte-code writing and the import path. Idempotent."""
    if _state["pinned"]:
        return
    for k in ("OPENBLAS_NUM_THREADS", "OMP_NUM_THREADS", "MKL_NUM_THREADS", "NUMEXPR_NUM_THREADS"):
        os.environ[k] = "1"
    os.environ["PYTHONDONTWRITEBYTECODE"] = "1"
    sys.dont_write_bytecode = True
    os.environ.setdefault("MPLBACKEND", "Agg")
    src = repo_src()
    if not os.path.isdir(os.path.join(src, "nuspacesim")):
        raise RuntimeError(f"no nuspacesim package under {src}")
    # the repository under test always wins over the editable install's .pth
    if src in sys.path:
        sys.path.remove(src)
    sys.path.insert(0, src)
    if VERIF_DIR not in sys.path:
        sys.path.insert(1, VERIF_DIR)
    _state["repo"] = src
    _state["pinned"] = True


# ----------------------------------------------------------------------------------
# zsteps: the compiled extension is git-ignored and cannot be rebuilt offline (no
# pybind11).  If it is missing next to cphotang.py, install a line-for-line Python
# transliteration of zsteps.cpp (double-precision overload, the one pybind11 selects for
# the argument types CphotAng passes) under the same module name.
# ----------------------------------------------------------------------------------


def _py_zsteps(z, sinThetView, RadE, zMaxZ, zmax, dL, pi):
    import numpy as np

    z = float(z)
    sinThetView = float(sinThetView)
    RadE = float(RadE)
    zMaxZ = float(zMaxZ)
    zmax = float(zmax)
    dL = float(dL)
    pi = float(pi)
    zsave = []
    delzs = []
    RadMax = RadE + zmax
    pi_2 = pi / 2.0
    acos, sqrt, cos = math.acos, math.sqrt, math.cos
    while z <= zMaxZ:
        Rad = z + RadE
        tp = RadMax / Rad
        ThetProp = acos(sinThetView * tp)
        delz = sqrt((Rad * Rad) + (dL * dL) - (2.0 * Rad * dL * cos(pi_2 + ThetProp))) - Rad
        delzs.append(delz)
        zsave.append(z + (delz / 2.0))
        z += delz
    return np.array(zsave, dtype=np.float64), np.array(delzs, dtype=np.float64)


def ensure_zsteps() -> str:
    """Return 'extension' or 'python-transliteration'."""
    if _state["zsteps"]:
        return _state["zsteps"]
    pin()
    d = os.path.join(repo_src(), "nuspacesim", "simulation", "eas_optical")
    have = any(f.startswith("zsteps.") and f.endswith(".so") for f in os.listdir(d))
    if have and not os.environ.get("VERIF_FORCE_PY_ZSTEPS"):
        _state["zsteps"] = "extension"
    else:
        m = types.ModuleType("nuspacesim.simulation.eas_optical.zsteps")
        m.zsteps = _py_zsteps
        m.__file__ = os.path.join(VERIF_DIR, "dst", "env.py")
        sys.modules["nuspacesim.simulation.eas_optical.zsteps"] = m
        _state["zsteps"] = "python-transliteration"
    return _state["zsteps"]


def load():
    """Import nuspacesim from the repository under test, with all pins applied."""
    pin()
    ensure_zsteps()
    import warnings

    warnings.filterwarnings("ignore")
    import numpy as np  # noqa: F401

    np.seterr(all="ignore")
    from astropy.utils import iers

    iers.conf.auto_download = False
    iers.conf.auto_max_age = None
    import nuspacesim

    got = os.path.realpath(os.path.dirname(os.path.dirname(nuspacesim.__file__)))
    if got != os.path.realpath(repo_src()):
        raise RuntimeError(f"nuspacesim imported from {got}, expected {repo_src()}")
    return nuspacesim


def repo_state() -> dict:
    import subprocess

    def g(*a):
        try:
            return subprocess.run(
                ["git", "-C", repo_root(), *a], capture_output=True, text=True, timeout=20
            ).stdout.strip()
        except Exception as e:  # pragma: no cover
            return f"<{e}>"

    return {"root": repo_root(), "head": g("rev-parse", "HEAD"), "diff_stat": g("diff", "--stat")}


if __name__ == "__main__":
    if "--check" in sys.argv:
        n = load()
        import dask
        import numpy
        import astropy

        print(
            "ok nuspacesim from", os.path.dirname(n.__file__), "zsteps:", _state["zsteps"],
            "numpy", numpy.__version__, "dask", dask.__version__, "astropy", astropy.__version__,
        )
