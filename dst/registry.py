"""Property id -> module."""

import importlib

PROPS = {
    "C05": "dst.props.c05",
    "C10": "dst.props.c10",
    "C11": "dst.props.c11",
    "C14": "dst.props.c14",
    "C17": "dst.props.c17",
}


def load(prop):
    from . import env

    env.load()
    return importlib.import_module(PROPS[prop])
