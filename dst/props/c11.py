"""C11 — every per-event stage is a pure, order-independent function of its inputs (DESIGN §7)."""

from __future__ import annotations

import math
import os
import random

import numpy as np

from .. import env, histsim
from ..core import Violation

LEVEL = "exploration"

_POOLS = {}
_CFG = {}


class _Null:
    def write(self, s):
        return len(s)

    def flush(self):
        pass

    def isatty(self):
        return False


def warmup(tier):
    env.load()
    import dask  # noqa
    from nuspacesim.config import NssConfig
    from nuspacesim.simulation.geometry.region_geometry import RegionGeomToO

    c = NssConfig()
    c.simulation.mode = "Target"
    g = RegionGeomToO(c)
    g.throw(np.linspace(0, 0.9, 7))  # IERS tables, ERFA caches
    _pool(20001, tier)  # the big pool costs 0.3 s to build: once per worker, inherited by the forked runs


# ------------------------------------------------------------------------------ pools


def _pool(m, tier):
    """Per-event inputs for every stage, fixed per (VERIF_SEED, m)."""
    seed = int(os.environ.get("VERIF_SEED", "0"))
    key = (seed, m)
    if key in _POOLS:
        return _POOLS[key]
    r = random.Random(f"c11pool|{seed}|{m}")
    P = {}
    u4 = np.array([[r.random() for _ in range(m)] for _ in range(4)])
    for k in range(min(m, 8)):  # cube faces and corners
        u4[k % 4, k] = (0.0, 1.0)[(k // 4) % 2]
    if m > 9:
        u4[:, 8] = 0.0
        u4[:, 9] = 1.0
    P["u4"] = u4
    P["tfrac"] = np.array([r.random() for _ in range(m)])
    P["tfrac"][0] = 0.0
    # near-duplicates: instants a fraction of a second apart (for a day-long observation),
    # as events of a real batch are when many are thrown
    for k in range(3, m, 7):
        P["tfrac"][k] = P["tfrac"][k - 1] + (0.3, 0.04, 0.6)[(k // 7) % 3] / 86400.0
    beta = np.array([r.uniform(0.0, math.radians(42.0)) for _ in range(m)])
    # out-of-table angles for the tau tables (min ~0.1 deg .. max 42 deg)
    for k in range(m):
        q = r.random()
        if q < 0.08:
            beta[k] = r.uniform(0.0, 0.0015)
        elif q < 0.16:
            beta[k] = r.uniform(math.radians(42.0), 1.3)
    P["beta"] = beta
    P["beta_in"] = np.array([r.uniform(math.radians(0.2), math.radians(41.9)) for _ in range(m)])
    P["logE"] = np.array([r.uniform(6.0, 12.0) for _ in range(m)])
    for k in range(0, m, 11):
        P["logE"][k] = (6.0, 12.0, 8.0, 7.25)[(k // 11) % 4]
    P["u"] = np.array([r.uniform(1e-6, 1.0 - 1e-6) for _ in range(m)])
    P["u"][2] = 0.0  # numpy's uniform generators draw from [0, 1): exactly zero is a legal number
    # near-duplicates (not exact repeats) in the per-event inputs of the tau and decay stages
    for k in range(5, m, 13):
        P["logE"][k] = P["logE"][k - 1] * (1.0 + 3e-9)
        P["beta_in"][k] = P["beta_in"][k - 1] + 2e-10
        P["u"][k] = P["u"][k - 1] * (1.0 - 4e-9)
    P["logE"] = np.clip(P["logE"], 6.0, 12.0)
    gam = 10 ** np.array([r.uniform(3.0, 10.0) for _ in range(m)])
    P["tauLorentz"] = gam
    P["tauBeta"] = np.sqrt(1.0 - np.reciprocal(gam**2))
    alt = np.array([r.uniform(0.0, 20.0) for _ in range(m)])
    for k in range(m):
        q = r.random()
        if q < 0.12:
            alt[k] = r.uniform(-2.0, 0.0)
        elif q < 0.5:
            alt[k] = r.uniform(20.0, 60.0)
        elif q < 0.54:
            alt[k] = (0.0, 20.0, 10.0)[k % 3]
    P["altDec"] = alt
    P["lenDec"] = 10 ** np.array([r.uniform(-2.0, 2.5) for _ in range(m)])
    P["showerE"] = 10 ** np.array([r.uniform(-5.0, 3.0) for _ in range(m)])
    P["lat"] = np.array([r.uniform(-1.5, 1.5) for _ in range(m)])
    P["lon"] = np.array([r.uniform(-3.1, 3.1) for _ in range(m)])
    P["theta"] = np.array([r.uniform(0.0, 0.06) for _ in range(m)])
    P["pathLen"] = np.array([r.uniform(300.0, 2600.0) for _ in range(m)])
    _POOLS[key] = P
    return P


def _config(ch):
    from nuspacesim.config import NssConfig, Simulation

    c = NssConfig()
    d = {}
    c.detector.initial_position.altitude = (525.0, 33.0, 1000.0)[ch.draw(3, "det_alt")]
    d["det_alt"] = c.detector.initial_position.altitude
    c.simulation.tau_shower.table_version = ("3", "1", "2")[ch.draw(3, "table")]
    d["table"] = c.simulation.tau_shower.table_version
    cl = ch.draw(3, "cloud")
    if cl == 1:
        c.simulation.cloud_model = Simulation.MonoCloud(altitude=6.0)
    elif cl == 2:
        c.simulation.cloud_model = Simulation.PressureMapCloud(month=3)
    d["cloud"] = ("none", "mono(6)", "pmap(3)")[cl]
    if ch.draw(2, "spectrum"):
        c.simulation.spectrum = Simulation.PowerSpectrum(index=2.2, lower_bound=6.5, upper_bound=11.5)
        d["spectrum"] = "power"
    else:
        d["spectrum"] = "mono"
    return c, d


# ------------------------------------------------------------------------------ memo model


class Memo:
    """memo[(stage, rng-mode)][event] = bytes of every per-event output the first time it is seen."""

    def __init__(self, m):
        self.m = m
        self.t = {}
        self.held = histsim.Held(keep=6)

    def observe(self, ctx, stage, mode, idx, outs, opi, n_batch):
        ch_h = self.held.changed()
        if ch_h is not None:
            ctx.violate("c11.result_overwritten", f"output {ch_h[2]} returned by {ch_h[1]} at op {ch_h[0]} changed while the caller held it (overwritten by a later call, before op {opi} returned)", sig=f"{ch_h[1]}:aliasing")
            self.held.items.clear()
        if len(idx) <= 4096:
            self.held.hold(opi, stage, [o for o in outs if isinstance(o, np.ndarray)])
        idx = np.asarray(idx, dtype=np.int64)
        key = (stage, mode)
        rows = []
        for o in outs:
            a = np.ascontiguousarray(histsim.native(o))
            if a.ndim == 0 or a.shape[0] != len(idx):
                raise Violation("c11.shape", f"op {opi} {stage}: batch of {len(idx)} events gave an output of shape {a.shape}", sig=f"{stage}:shape")
            rows.append(a.reshape(len(idx), -1).view(np.uint8).reshape(len(idx), -1))
        ent = self.t.get(key)
        if ent is None:
            ent = {"seen": np.zeros(self.m, dtype=bool), "op": np.full(self.m, -1, dtype=np.int64), "store": [None] * len(rows)}
            self.t[key] = ent
        if len(ent["store"]) != len(rows):
            raise Violation("c11.shape", f"op {opi} {stage}: number of outputs changed from {len(ent['store'])} to {len(rows)}", sig=f"{stage}:shape")
        # first occurrences of unseen events are stored
        uniq, first = np.unique(idx, return_index=True)
        new = ~ent["seen"][uniq]
        for k, r in enumerate(rows):
            if ent["store"][k] is None:
                ent["store"][k] = np.zeros((self.m, r.shape[1]), dtype=np.uint8)
            elif ent["store"][k].shape[1] != r.shape[1]:
                raise Violation("c11.shape", f"op {opi} {stage}: per-event width of output {k} changed", sig=f"{stage}:shape")
            ent["store"][k][uniq[new]] = r[first[new]]
        ent["op"][uniq[new]] = opi
        ent["seen"][uniq[new]] = True
        for k, r in enumerate(rows):
            diff = np.any(ent["store"][k][idx] != r, axis=1)
            if diff.any():
                p = int(np.nonzero(diff)[0][0])
                e = int(idx[p])
                o = np.asarray(outs[k])
                old = ent["store"][k][e].view(o.dtype) if o.dtype.itemsize and ent["store"][k].shape[1] % o.dtype.itemsize == 0 else ent["store"][k][e]
                ctx.violate(
                    "c11.order_dependent",
                    f"op {opi} {stage}[{mode}] output {k}: event #{e} at position {p} of a batch of {n_batch} gave {np.asarray(o[p]).ravel()[:3]!r}, "
                    f"but {np.asarray(old).ravel()[:3]!r} when first evaluated at op {int(ent['op'][e])} ({int(diff.sum())} of {len(idx)} positions differ)",
                    sig=f"{stage}",
                )
                return


_FAILED = object()


_FP_MODES = (None, None, None, None, None, None, {"divide": "raise"}, {"all": "raise"})


def _guard_args(ctx, stage, opi, args, fn, fresh=None):
    """Calls fn(); the caller's arrays must be unchanged afterwards.  If the call raises on the
    long-lived object, the same batch is given to a FRESH object: if that one accepts it, the
    failure depends on the call history (a violation); if it raises too, the stage simply does
    not accept this input, which is not this property's business."""
    before = [histsim.abytes(a) for a in args]
    # the caller's numpy floating-point error mode is part of the environment a stage runs in: a
    # stage may raise under 'raise' (loud), but what it RETURNS is the same function of the events
    fpm = _FP_MODES[ctx.describe.get("fp_error_mode", 0)]
    if fpm and fresh is not None:
        fn0, fresh0 = fn, fresh

        def fn():
            with np.errstate(**fpm):
                return fn0()

        def fresh():
            with np.errstate(**fpm):
                return fresh0()
    try:
        out = fn()
    except Violation:
        raise
    except Exception as e:  # noqa: BLE001
        if fresh is None:
            raise
        if fpm and isinstance(e, FloatingPointError):
            ctx.probes["stage_raises_under_fp_error_mode"] += 1
        try:
            fresh()
        except Exception:  # noqa: BLE001
            ctx.probes["stage_rejects_input"] += 1
            return _FAILED
        ro = [k for k, a in enumerate(args) if isinstance(a, np.ndarray) and not a.flags.writeable]
        if ro and "read-only" in str(e):
            # the argument was handed over read-only and the stage tried to write into it (even a
            # write that changes no value needs the caller's array to be writable)
            ctx.violate(
                "c11.argument_modified",
                f"op {opi} {stage}: raised {type(e).__name__}: {str(e)[:120]} — argument {ro[0]} was passed as a read-only array and the stage writes into it (a writable copy of the same batch is accepted)",
                sig=f"{stage}:arg{ro[0]}:read-only",
            )
            return _FAILED
        ctx.violate(
            "c11.history_dependent_failure",
            f"op {opi} {stage}: raised {type(e).__name__}: {str(e)[:160]} on the long-lived object, but a fresh object accepts the same batch",
            sig=stage,
        )
        return _FAILED
    for k, (a, b) in enumerate(zip(args, before)):
        if histsim.abytes(a) != b:
            ctx.violate("c11.argument_modified", f"op {opi} {stage}: argument {k} (array of {np.asarray(a).size} elements) was modified in place by the call", sig=f"{stage}:arg{k}")
    # the model without memory: now and then the same batch goes to a fresh object as well
    # (a state that is polluted consistently is invisible to a first-observation memo);
    # only for calls whose random numbers are fixed (explicit, or the constant stream)
    if fresh is not None and out is not None and not stage.startswith(("RegionGeom", "EAS.__call__")) and args and len(args[0]) <= 256 \
            and ctx.ch.draw(4, "fresh_check") == 3:
        try:
            ref = fresh()
        except Exception:  # noqa: BLE001
            ref = None
        if ref is not None:
            ctx.probes["fresh_object_cross_check"] += 1
            oo = list(out) if isinstance(out, tuple) else [out]
            rr = list(ref) if isinstance(ref, tuple) else [ref]
            for k, (a_, b_) in enumerate(zip(oo, rr)):
                if histsim.abytes(np.asarray(a_)) != histsim.abytes(np.asarray(b_)):
                    ctx.violate("c11.differs_from_fresh_object", f"op {opi} {stage} output {k}: the long-lived object returns {np.asarray(a_).ravel()[:3]!r}, a fresh object {np.asarray(b_).ravel()[:3]!r} for the same batch", sig=stage)
                    break
    return out


# ------------------------------------------------------------------------------ stage adapters


def _full(mask, vals, n):
    out = np.full((n,) + np.asarray(vals).shape[1:], np.nan)
    out[mask] = vals
    return out


def _safe(fn):
    """Accessor names are the repository's; if a refactor renames one, the stage becomes
    unobservable for this check (a probe counts it) instead of crashing the harness."""
    def wrapped(ctx, g, n):
        try:
            return fn(g, n)
        except AttributeError as e:
            ctx.probes["stage_unobservable:" + str(e)[:60]] += 1
            return None
    return wrapped


def _geom_outputs_raw(g, n):
    mask = np.asarray(g.event_mask, dtype=bool)
    outs = [mask.astype(np.uint8)]
    for name in ("betas", "beta_rad", "thetas", "phis", "pathLens", "valid_costhetaTrSubN", "valid_costhetaNSubV", "valid_costhetaTrSubV",
                 "valid_longS", "valid_latS", "valid_elevAngVSubN", "valid_aziAngVSubN"):
        outs.append(_full(mask, getattr(g, name)(), n))
    lat, lon = g.find_lat_long_along_traj(np.zeros(int(mask.sum())))
    outs.append(_full(mask, lat, n))
    outs.append(_full(mask, lon, n))
    return outs


def _too_outputs_raw(g, n):
    hm = np.asarray(g.horizon_mask, dtype=bool)
    vm = np.asarray(g.volume_mask, dtype=bool)
    full = np.zeros(n, dtype=bool)
    full[np.nonzero(hm)[0][vm]] = True
    outs = [hm.astype(np.uint8), full.astype(np.uint8)]
    outs.append(np.asarray(g.times.jd1))
    outs.append(np.asarray(g.times.jd2))
    outs.append(_full(full, g.beta_rad(), n))
    outs.append(_full(full, g.betas(), n))
    outs.append(_full(full, g.thetas(), n))
    outs.append(_full(full, g.pathLens(), n))
    vt = g.val_times()
    outs.append(_full(full, np.asarray(vt.jd1), n))
    outs.append(_full(full, np.asarray(vt.jd2), n))
    return outs


_geom_outputs = _safe(_geom_outputs_raw)
_too_outputs = _safe(_too_outputs_raw)


def scn_history(ctx):
    import dask
    from nuspacesim.simulation.atmosphere.clouds import CloudTopHeight
    from nuspacesim.simulation.eas_optical.eas import EAS
    from nuspacesim.simulation.eas_radio.radio import EASRadio
    from nuspacesim.simulation.geometry.region_geometry import RegionGeom, RegionGeomToO
    from nuspacesim.simulation.spectra.spectra import Spectra
    from nuspacesim.simulation.taus.taus import Taus

    import sys

    ch, tier = ctx.ch, ctx.tier
    big = ch.draw(6, "big_pool") == 5
    m = 20001 if big else 8 + ch.draw(33, "pool_size")
    P = _pool(m, tier)
    ctx.describe["fp_error_mode"] = ch.draw(len(_FP_MODES), "fp_error_mode")
    if _FP_MODES[ctx.describe["fp_error_mode"]]:
        ctx.probes["history_under_fp_error_mode_raise"] += 1
    cfg, cdesc = _config(ch)
    tcfg = cfg.model_copy(deep=True)
    tcfg.simulation.mode = "Target"
    if ch.draw(2, "target_var"):
        tcfg.simulation.target.source_RA = math.radians(30 * ch.draw(12, "RA"))
        tcfg.simulation.target.source_DEC = math.radians(-60 + 15 * ch.draw(9, "DEC"))
        tcfg.simulation.target.source_obst = (86400, 3600, 7 * 86400)[ch.draw(3, "obst")]
    objs = {}

    clouds = {}

    def cloud_fn(label):
        if label not in clouds:
            if label == "config":
                clouds[label] = obj("cloud")
            elif label == "none":
                clouds[label] = None
            else:
                from .c10 import ConstCloud

                clouds[label] = ConstCloud(float(label[5:]))
        return clouds[label]

    FRESH = {"geom": lambda: RegionGeom(cfg), "too": lambda: RegionGeomToO(tcfg), "spec": lambda: Spectra(cfg), "taus": lambda: Taus(cfg),
             "eas": lambda: EAS(cfg), "radio": lambda: EASRadio(cfg), "cloud": lambda: CloudTopHeight(cfg)}

    def obj(name):
        if name not in objs:
            objs[name] = {
                "geom": lambda: RegionGeom(cfg), "too": lambda: RegionGeomToO(tcfg), "spec": lambda: Spectra(cfg), "taus": lambda: Taus(cfg),
                "eas": lambda: EAS(cfg), "radio": lambda: EASRadio(cfg), "cloud": lambda: CloudTopHeight(cfg),
            }[name]()
        return objs[name]

    memo = Memo(m)
    n_ops = 5 + ch.draw(28 if not big else 10, "n_ops")
    cheap = ("geom", "tau_exit_prob", "tau_energy_u", "tau_energy_const", "taus_call", "altDec", "geom_call_seeded", "spec", "cdf_utils")
    allst = cheap + ("too", "radio", "eas", "eas", "too", "radio", "altDec_seeded", "taus_call_seeded", "radio_seeded", "mcint", "mcint_too", "eas", "construct", "cdf_utils", "edit_config")
    last_throw = {}
    epoch = {"radio": 0}
    stages = cheap if big else allst
    maxlen = 20001 if big else 48
    ctx.describe.update(pool=m, n_ops=n_ops, config=cdesc)
    ctx.log(f"history pool={m} ops={n_ops} cfg={cdesc}")
    seen_stages = set()
    saved_out = sys.stdout
    sys.stdout = _Null()
    # the machine as the code sees it: one history in five runs on a box with 64 MiB of free memory
    # (os.sysconf), as the simulated os.cpu_count() of the scheduler runs does for cores
    lowmem = ch.draw(5, "simulated_free_memory") == 4
    saved_sysconf = os.sysconf
    if lowmem:
        ctx.probes["history_with_64MiB_simulated_free_memory"] += 1
        page = saved_sysconf("SC_PAGE_SIZE")

        def sysconf(name):
            if name in ("SC_AVPHYS_PAGES", getattr(os, "sysconf_names", {}).get("SC_AVPHYS_PAGES")):
                return (64 << 20) // page
            if name in ("SC_PHYS_PAGES", getattr(os, "sysconf_names", {}).get("SC_PHYS_PAGES")):
                return (256 << 20) // page
            return saved_sysconf(name)

        os.sysconf = sysconf
    try:
        for opi in range(n_ops):
            st = stages[ch.draw(len(stages), "stage")]
            if big and st in ("geom", "tau_exit_prob", "tau_energy_u", "tau_energy_const", "taus_call", "altDec"):
                # sub-batches that straddle the 8192-element iterator buffer
                a = ch.draw(m, "big_a")
                n = (8193, 8192, 8191, 16385, 20001, 1, 12000, 65537)[ch.draw(8, "big_n")]
                stride = (1, 1, 3, 7)[ch.draw(4, "big_stride")]
                if st in ("tau_exit_prob", "tau_energy_u", "tau_energy_const") and ch.draw(200 if tier == "quick" else 300, "giant") == 7:
                    # a production-size batch (beyond 2**22) in the middle of the session
                    n = 2**22 + 1 + ch.draw(3, "giant_n")
                    ctx.probes["batch_gt_2^22"] += 1
                idx = (a + np.arange(n, dtype=np.int64) * stride) % m
                if n > 8192:
                    ctx.probes["batch_gt_8192"] += 1
            elif st == "radio" and lowmem and ch.draw(3, "radio_big") == 2:
                # more showers than fit into the (simulated) free memory at once
                k = 4237 + ch.draw(12000, "radio_big_n")
                idx = np.resize(np.roll(np.arange(m), ch.draw(m, "radio_big_roll")), k)
                ctx.probes["radio_batch_beyond_simulated_free_memory"] += 1
            elif st == "eas" and ch.draw(16, "eas_big") == 15:
                # more than 100 in-range showers (more than one dask partition), built by
                # repeating the pool's in-range events
                inr = np.nonzero((P["altDec"] >= 0) & (P["altDec"] <= 20))[0]
                k = 101 + ch.draw(40, "eas_big_n")
                idx = list(np.resize(np.roll(inr, ch.draw(len(inr), "eas_big_roll")), k)) if len(inr) else [0]
                ctx.probes["optical_batch_gt_100_in_range"] += 1
            else:
                idx = histsim.draw_indices(ch, m, 10 if st == "eas" else maxlen if not big else 64)
            idx = np.asarray(idx, dtype=np.int64)
            n = len(idx)
            seen_stages.add(st)
            ctx.steps += 1
            L = lambda a, lab="layout": histsim.layout(ch, a, lab)  # noqa: E731

            if st == "edit_config":
                # the (mutable) configuration the long-lived objects point to is edited between calls:
                # from here on they must answer as a fresh object built from the edited configuration does
                r_ = cfg.detector.radio
                band = ((30.0, 300.0), (30.0, 80.0), (300.0, 1000.0), (200.0, 1200.0))[ch.draw(4, "band")]
                r_.low_frequency, r_.high_frequency = band
                cfg.simulation.ionosphere.total_electron_content = (10.0, 1.0, 50.0, 100.0)[ch.draw(4, "tec")]
                cfg.simulation.ionosphere.total_electron_error = (0.1, 5.0, 0.0)[ch.draw(3, "tecerr")]
                epoch["radio"] += 1
                ctx.probes["configuration_edited_between_calls"] += 1
                ctx.log(f"op{opi} edit_config band={band}")
                continue
            if st == "cdf_utils":
                # the public samplers of utils.cdf are built from the long-lived Taus object's own
                # CDF table (at a table node or off it) and used: the table belongs to the object
                from nuspacesim.utils import cdf as cdfu

                tq = obj("taus")
                which = ("grid_inverse_sampler", "nearest_cdf_sampler", "lerp_cdf_sampler", "grid_cdf_sampler")[ch.draw(4, "cdf_sampler")]
                le = (8.0, 6.0, 12.0, 8.13, 10.25, 7.9)[ch.draw(6, "cdf_energy")]
                try:
                    if which == "grid_cdf_sampler":
                        smp = cdfu.grid_cdf_sampler(tq.tau_cdf_grid)
                        smp(np.full(5, le), np.array(P["beta_in"][:5]), np.array(P["u"][:5]))
                    else:
                        smp = getattr(cdfu, which)(tq.tau_cdf_grid, le)
                        smp(np.array(P["beta_in"][:5]), np.array(P["u"][:5]))
                    ctx.probes["cdf_utility_sampler_used"] += 1
                except Exception:  # noqa: BLE001
                    ctx.probes["cdf_utility_sampler_raised"] += 1
                ctx.log(f"op{opi} cdf_utils {which} E={le}")
                continue
            if st == "construct":
                # another object of one of the stage classes comes to life (a second run's, say):
                # the long-lived ones must not notice
                which = ("radio", "taus", "eas", "geom", "too", "spec", "cloud")[ch.draw(7, "construct_which")]
                how = ch.draw(4, "construct_how")
                if how >= 2 and which in objs and which not in ("geom", "too"):
                    # the long-lived object is replaced by a copy of itself (copy.deepcopy, or a pickle
                    # round trip as when it is shipped to a worker): it must go on answering the same
                    import copy
                    import pickle

                    try:
                        objs[which] = copy.deepcopy(objs[which]) if how == 2 else pickle.loads(pickle.dumps(objs[which]))
                        # a copy carries its own copy of the configuration; the history's later
                        # `edit_config` edits the shared one, so the copy is pointed back at it
                        # (otherwise the harness itself would make the copy "remember" the old
                        # configuration and raise a false alarm — it did, thorough seed 23)
                        if hasattr(objs[which], "config"):
                            objs[which].config = tcfg if which == "too" else cfg
                        if which == "cloud":
                            clouds.pop("config", None)
                        ctx.probes["object_replaced_by_" + ("deepcopy" if how == 2 else "pickle_round_trip")] += 1
                    except Exception:  # noqa: BLE001
                        ctx.probes["object_copy_failed"] += 1
                    ctx.log(f"op{opi} copy {which} how={how}")
                    continue
                other = FRESH[which]()
                del other
                ctx.probes["other_object_constructed"] += 1
                ctx.log(f"op{opi} construct {which}")
                continue
            if st == "geom":
                g = obj("geom")
                u = np.ascontiguousarray(P["u4"][:, idx]) if ch.draw(4, "u_layout") else np.asfortranarray(P["u4"][:, idx])
                if _guard_args(ctx, "RegionGeom.throw", opi, [u], lambda: g.throw(u), lambda: RegionGeom(cfg).throw(np.array(u))) is _FAILED:
                    last_throw.pop("geom", None)  # a throw that raised leaves the object half-updated
                    continue
                outs = _geom_outputs(ctx, g, n)
                if outs is not None:
                    memo.observe(ctx, "RegionGeom.throw", "explicit-u", idx, outs, opi, n)
                last_throw["geom"] = idx
            elif st == "geom_call_seeded":
                g = obj("geom")
                last_throw.pop("geom", None)  # the object's state is replaced by nn random events
                s = ch.draw(1000, "seed")
                nn = 1 + ch.draw(60, "n")
                np.random.seed(s)
                r1 = [np.array(x) for x in g(nn)]
                if ch.draw(8, "plot") == 7:
                    import matplotlib.pyplot as plt

                    np.random.seed(s)
                    try:
                        rp = [np.array(x) for x in g(nn, plot="geom_beta_tr_hist")]
                        ctx.probes["call_with_plot_hook"] += 1
                        if any(histsim.abytes(a_) != histsim.abytes(b_) for a_, b_ in zip(r1, rp)):
                            ctx.violate("c11.plot_changes_results", f"op {opi} RegionGeom(N={nn}, plot=geom_beta_tr_hist) differs from the same call without the plot", sig="RegionGeom:plot")
                    except Violation:
                        raise
                    except Exception:  # noqa: BLE001
                        ctx.probes["plot_hook_raised"] += 1
                    finally:
                        plt.close("all")
                    np.random.seed(s)
                    g(nn)
                o1 = _geom_outputs(ctx, g, nn) or []
                np.random.seed(s)
                uu = np.random.rand(4, nn)
                g.throw(uu)
                o2 = _geom_outputs(ctx, g, nn) or []
                np.random.seed(s)
                r3 = [np.array(x) for x in g(nn)]
                for a, b in zip(o1, o2):
                    if histsim.abytes(a) != histsim.abytes(b):
                        ctx.violate("c11.repeat", f"op {opi} RegionGeom(N={nn}) with the generator seeded differs from throw(rand(4,N)) with the same seed", sig="RegionGeom.__call__")
                        break
                for a, b in zip(r1, r3):
                    if histsim.abytes(a) != histsim.abytes(b):
                        ctx.violate("c11.repeat", f"op {opi} RegionGeom(N={nn}) repeated with the same generator state gives different results", sig="RegionGeom.__call__")
                        break
            elif st == "too":
                g = obj("too")
                t = L(P["tfrac"][idx])
                if _guard_args(ctx, "RegionGeomToO.throw", opi, [t], lambda: g.throw(t), lambda: RegionGeomToO(tcfg).throw(np.array(t))) is _FAILED:
                    last_throw.pop("too", None)  # a throw that raised leaves the object half-updated
                    continue
                outs = _too_outputs(ctx, g, n)
                if outs is not None:
                    memo.observe(ctx, "RegionGeomToO.throw", "explicit-times", idx, outs, opi, n)
                last_throw["too"] = idx
            elif st in ("mcint", "mcint_too"):
                # the acceptance integral is an aggregate, not a per-event stage; what is checked
                # here is only that it is repeatable on one object, leaves its arguments alone and
                # leaves the geometry object's per-event state as the last throw made it
                which = "geom" if st == "mcint" else "too"
                if which not in last_throw:
                    ctx.log(f"op{opi} {st} skipped (no throw yet)")
                    continue
                g = obj(which)
                tidx = last_throw[which]
                nv = int(len(g.beta_rad()))
                if nv == 0:
                    ctx.log(f"op{opi} {st} skipped (no valid event)")
                    continue
                sel = np.resize(tidx, nv)
                trig = np.array(P["showerE"][sel]) * 40.0
                cth = np.cos(np.array(P["theta"][sel]))
                pex = np.array(P["u"][sel])
                lend = np.array(P["lenDec"][sel])
                thr = (10.0, 0.5, 1e6)[ch.draw(3, "threshold")]
                method = ("Optical", "Radio")[ch.draw(2, "method")]
                margs = [trig, cth, pex, lend]
                name = "RegionGeom.mcintegral" if which == "geom" else "RegionGeomToO.mcintegral"

                def call():
                    return g.mcintegral(trig, cth, pex, thr, 1.0, 1.0, lenDec=lend, method=method)

                fpm = _FP_MODES[ctx.describe.get("fp_error_mode", 0)]
                try:
                    with np.errstate(**(fpm or {})):
                        r1 = _guard_args(ctx, name, opi, margs, call)
                        r2 = _guard_args(ctx, name, opi, margs, call)
                except FloatingPointError:
                    if not fpm:
                        raise
                    ctx.probes["stage_raises_under_fp_error_mode"] += 1
                    continue
                b1 = [histsim.abytes(np.asarray(x, dtype=np.float64)) for x in r1]
                b2 = [histsim.abytes(np.asarray(x, dtype=np.float64)) for x in r2]
                if b1 != b2:
                    ctx.violate("c11.repeat", f"op {opi} {name} repeated on the same object with the same arguments gives {tuple(r2)!r} after {tuple(r1)!r}", sig=name)
                outs = (_geom_outputs if which == "geom" else _too_outputs)(ctx, g, len(tidx))
                if outs is not None:
                    memo.observe(ctx, "RegionGeom.throw" if which == "geom" else "RegionGeomToO.throw", "explicit-u" if which == "geom" else "explicit-times", tidx, outs, opi, len(tidx))
            elif st == "spec":
                sp = obj("spec")
                s = ch.draw(1000, "seed")
                a = 1 + ch.draw(50, "a")
                b = 1 + ch.draw(50, "b")
                np.random.seed(s)
                x1 = sp(a + b)
                np.random.seed(s)
                xa = sp(a)
                xb = sp(b)
                np.random.seed(s)
                x2 = sp(a + b)
                if ch.draw(8, "plot") == 7:
                    # the plot hook must not change what the stage returns
                    import matplotlib.pyplot as plt

                    np.random.seed(s)
                    try:
                        x3 = sp(a + b, plot="spectra_histogram")
                        ctx.probes["call_with_plot_hook"] += 1
                        if histsim.abytes(x1[0]) != histsim.abytes(x3[0]):
                            ctx.violate("c11.plot_changes_results", f"op {opi} Spectra(N={a + b}, plot=spectra_histogram) differs from the same call without the plot", sig="Spectra:plot")
                    except Violation:
                        raise
                    except Exception:  # noqa: BLE001
                        ctx.probes["plot_hook_raised"] += 1
                    finally:
                        plt.close("all")
                if histsim.abytes(x1[0]) != histsim.abytes(x2[0]) or x1[1:] != x2[1:]:
                    ctx.violate("c11.repeat", f"op {opi} Spectra(N={a + b}) repeated with the same generator state gives different results", sig="Spectra")
                if histsim.abytes(np.concatenate([xa[0], xb[0]])) != histsim.abytes(x1[0]):
                    ctx.violate("c11.split", f"op {opi} Spectra({a}) then Spectra({b}) on one random stream differs from Spectra({a + b})", sig="Spectra")
            elif st == "tau_exit_prob":
                tq = obj("taus")
                b, e = L(P["beta"][idx], "lb"), L(P["logE"][idx], "le")
                out = _guard_args(ctx, "Taus.tau_exit_prob", opi, [b, e], lambda: tq.tau_exit_prob(b, e), lambda: Taus(cfg).tau_exit_prob(np.array(b), np.array(e)))
                if out is _FAILED:
                    continue
                memo.observe(ctx, "Taus.tau_exit_prob", "none", idx, [out], opi, n)
            elif st == "tau_energy_u":
                tq = obj("taus")
                b, e, u = L(P["beta_in"][idx], "lb"), L(P["logE"][idx], "le"), L(P["u"][idx], "lu")
                out = _guard_args(ctx, "Taus.tau_energy", opi, [b, e, u], lambda: tq.tau_energy(b, e, u), lambda: Taus(cfg).tau_energy(np.array(b), np.array(e), np.array(u)))
                if out is _FAILED:
                    continue
                memo.observe(ctx, "Taus.tau_energy", "explicit-u", idx, [out], opi, n)
            elif st == "tau_energy_const":
                tq = obj("taus")
                b, e = L(P["beta"][idx], "lb"), L(P["logE"][idx], "le")
                with histsim.constant_stream():
                    out = _guard_args(ctx, "Taus.tau_energy", opi, [b, e], lambda: tq.tau_energy(b, e), lambda: Taus(cfg).tau_energy(np.array(b), np.array(e)))
                if out is _FAILED:
                    continue
                memo.observe(ctx, "Taus.tau_energy", "const", idx, [out], opi, n)
            elif st == "taus_call":
                tq = obj("taus")
                b, e = L(P["beta"][idx], "lb"), L(P["logE"][idx], "le")
                pl = None
                if n <= 64 and ch.draw(10, "plot") == 9:
                    # the stage's optional plot hooks (non-interactive backend): a plot must neither
                    # touch the arguments nor the results
                    names = ("taus_pexit", "taus_density_beta", "taus_histogram") + (("taus_overview",) if tier == "thorough" or ch.draw(4, "slow_plot") == 3 else ())
                    pl = names[ch.draw(len(names), "plot_name")]
                with histsim.constant_stream():
                    if pl:
                        import matplotlib.pyplot as plt

                        def with_plot():
                            try:
                                return tq(b, e, plot=pl)
                            finally:
                                plt.close("all")

                        try:
                            out = _guard_args(ctx, f"Taus.__call__(plot={pl})", opi, [b, e], with_plot, None)
                            ctx.probes["call_with_plot_hook"] += 1
                        except Violation:
                            raise
                        except Exception:  # noqa: BLE001
                            # the plot code's own trouble with this batch is not this property's business
                            ctx.probes["plot_hook_raised"] += 1
                            b, e = np.array(P["beta"][idx]), np.array(P["logE"][idx])
                            out = _guard_args(ctx, "Taus.__call__", opi, [b, e], lambda: tq(b, e), lambda: Taus(cfg)(np.array(b), np.array(e)))
                    else:
                        out = _guard_args(ctx, "Taus.__call__", opi, [b, e], lambda: tq(b, e), lambda: Taus(cfg)(np.array(b), np.array(e)))
                if out is _FAILED:
                    continue
                memo.observe(ctx, "Taus.__call__", "const", idx, list(out), opi, n)
            elif st == "taus_call_seeded":
                tq = obj("taus")
                b, e = np.array(P["beta"][idx]), np.array(P["logE"][idx])
                s = ch.draw(1000, "seed")
                np.random.seed(s)
                o1 = tq(b, e)
                np.random.seed(s)
                o2 = tq(b, e)
                if any(histsim.abytes(x) != histsim.abytes(y) for x, y in zip(o1, o2)):
                    ctx.violate("c11.repeat", f"op {opi} Taus.__call__ repeated on the same object with the same generator state gives different results", sig="Taus.__call__")
            elif st == "altDec":
                ea = obj("eas")
                b, tb, tl, u = L(P["beta"][idx], "lb"), L(P["tauBeta"][idx], "ltb"), L(P["tauLorentz"][idx], "ltl"), L(P["u"][idx], "lu")
                out = _guard_args(ctx, "EAS.altDec", opi, [b, tb, tl, u], lambda: ea.altDec(b, tb, tl, u=u), lambda: EAS(cfg).altDec(np.array(b), np.array(tb), np.array(tl), u=np.array(u)))
                if out is _FAILED:
                    continue
                memo.observe(ctx, "EAS.altDec", "explicit-u", idx, list(out), opi, n)
            elif st == "altDec_seeded":
                ea = obj("eas")
                b, tb, tl = np.array(P["beta"][idx]), np.array(P["tauBeta"][idx]), np.array(P["tauLorentz"][idx])
                s = ch.draw(1000, "seed")
                np.random.seed(s)
                o1 = ea.altDec(b, tb, tl)
                np.random.seed(s)
                o2 = ea.altDec(b, tb, tl)
                np.random.seed(s)
                uu = np.random.uniform(0, 1, len(b))
                o3 = ea.altDec(b, tb, tl, u=uu)
                if any(histsim.abytes(x) != histsim.abytes(y) for x, y in zip(o1, o2)) or any(histsim.abytes(x) != histsim.abytes(y) for x, y in zip(o1, o3)):
                    ctx.violate("c11.repeat", f"op {opi} EAS.altDec repeated with the same generator state (or with the same numbers passed explicitly) gives different results", sig="EAS.altDec")
            elif st == "eas":
                ea = obj("eas")
                clabel = ("config", "config", "const3", "none", "const9")[ch.draw(5, "cloudf")]
                cloud = cloud_fn(clabel)
                args = [L(P["beta"][idx], "lb"), L(P["altDec"][idx], "la"), L(P["showerE"][idx], "ls"), L(P["lat"][idx], "lla"), L(P["lon"][idx], "llo")]
                with dask.config.set(scheduler="synchronous"):
                    out = _guard_args(ctx, "EAS.__call__", opi, args, lambda: ea(*args, cloudf=cloud), lambda: EAS(cfg)(*[np.array(a) for a in args], cloudf=cloud))
                    if out is _FAILED:
                        continue
                    if n <= 12 and ch.draw(3, "fresh_check") == 2:
                        # the model without memory: a fresh object on the same batch
                        ref = EAS(cfg)(*[np.array(a) for a in args], cloudf=cloud)
                        ctx.probes["fresh_object_cross_check"] += 1
                        for k, (a_, b_) in enumerate(zip(out, ref)):
                            if histsim.abytes(np.asarray(a_)) != histsim.abytes(np.asarray(b_)):
                                ctx.violate("c11.differs_from_fresh_object", f"op {opi} EAS.__call__[cloud={clabel}] output {k}: the long-lived object returns {np.asarray(a_).ravel()[:3]!r}, a fresh object {np.asarray(b_).ravel()[:3]!r} for the same batch", sig="EAS.__call__")
                                break
                memo.observe(ctx, "EAS.__call__", "cloud=" + clabel, idx, list(out), opi, n)
                inr = int(np.count_nonzero((P["altDec"][idx] >= 0) & (P["altDec"][idx] <= 20)))
                if inr == 0:
                    ctx.probes["optical_batch_all_out_of_range"] += 1
            elif st in ("radio", "radio_seeded"):
                ra = obj("radio")
                args = [L(P["beta"][idx], "lb"), L(P["altDec"][idx], "la"), L(P["lenDec"][idx], "ll"), L(P["theta"][idx], "lt"), L(P["pathLen"][idx], "lp"), L(P["showerE"][idx], "ls")]
                if st == "radio":
                    with histsim.constant_stream():
                        out = _guard_args(ctx, "EASRadio.__call__", opi, args, lambda: ra(*args), lambda: EASRadio(cfg)(*[np.array(a) for a in args]))
                    if out is _FAILED:
                        continue
                    memo.observe(ctx, "EASRadio.__call__", f"const/config-epoch-{epoch['radio']}", idx, [out], opi, n)
                else:
                    s = ch.draw(1000, "seed")
                    np.random.seed(s)
                    o1 = ra(*args)
                    np.random.seed(s)
                    o2 = ra(*args)
                    if histsim.abytes(o1) != histsim.abytes(o2):
                        ctx.violate("c11.repeat", f"op {opi} EASRadio.__call__ repeated with the same generator state gives different results", sig="EASRadio.__call__")
            ctx.log(f"op{opi} {st} n={n} first={int(idx[0])}")
    finally:
        sys.stdout = saved_out
        os.sysconf = saved_sysconf
    ctx.nontrivial = len(seen_stages) >= 2
    for s in seen_stages:
        ctx.probes["stage_" + s] += 1
    for k, v in ctx.known_hits.items():
        ctx.probes["known:" + k] += v


FAMILIES = {"history": scn_history}
PLAN = {"quick": [("history", 1100, 10)], "thorough": [("history", 120000, 40)]}
BUDGET = {"quick": 200, "thorough": 2400}

META = {
    "time_key": "operations",
    "rule": (
        "one run = one seeded history of 5..32 calls on long-lived RegionGeom, RegionGeomToO, Spectra, Taus, EAS and EASRadio objects (created once per history, stages "
        "interleaved arbitrarily); each call evaluates an index list into a pool of 8..40 events (one history in six: 20001 events with sub-batches of 8191..20001 that "
        "straddle the 8192-element iterator buffer): single events, slices, reversed and strided subsets, repeats, permutations; arguments are fresh copies or, for a "
        "seeded minority, strided/offset views; random numbers are explicit where the API takes them, a constant stream otherwise, or a re-seeded generator for the "
        "positional relations (repeat, split-and-concatenate). Model: the bytes of every per-event output the first time an event is seen; every later observation "
        "must be bit-identical; every argument array is digested before and after each call. Non-trivial: >= 2 different stages called; distinct = distinct event-log digests"
    ),
    "components_real": ["RegionGeom, RegionGeomToO (astropy/erfa transforms)", "Spectra", "Taus + cdf/interp utilities", "EAS.altDec, EAS.__call__ (CphotAng under the synchronous dask scheduler)",
                        "EASRadio + radio parameter tables", "CloudTopHeight"],
    "components_simulated": ["np.random.uniform/rand during constant-stream calls", "the per-event memo model (no state beyond first observations)"],
    "assumptions": [
        "no fault kind applies to this property; what is explored is order, composition and repetition of calls",
        "explicit random numbers are used for Taus.tau_energy only with all-in-table angles (the mixed-angle explicit-u path raises a broadcast error, which is C04's matter)",
        "bit-identity under permutation/splitting presumes numpy's element-wise kernels are layout- and position-independent on this build (measured: they are)",
        "IERS auto-download off; bundled astropy-iers-data",
        "scheduling of the optical stage is C10's business: EAS.__call__ runs under the synchronous scheduler here",
    ],
}
