"""C10 — batch shower evaluation is independent of the parallel schedule (DESIGN §7)."""

from __future__ import annotations

import math
import os
import random
import sys

import numpy as np

from .. import env
from ..core import Violation, HarnessError
from ..schedsim import draw_world, SimWorld

LEVEL = "exploration"
DET_ALTS = (525.0, 33.0, 1000.0)
POOL_N = {"quick": 40, "thorough": 144}
N_TWINS = 8  # near-duplicate partners appended to the pool (see _pool)
POISON_LAT = 0.123456789  # marker latitude for which the poisoned cloud function raises
CLOUD_KINDS = ("none", "const2", "const8", "const70", "repo-mono", "repo-pmap")


class InjectedKernelFault(Exception):
    pass


# the exception *type* of an injected failure is part of the fault space: StopIteration, for
# one, is swallowed by the builtin map() dask.bag runs the kernel under
POISON_EXC = (InjectedKernelFault, StopIteration, FloatingPointError, OSError, KeyError)
# natural failures: inputs for which evaluating the event one at a time raises (the oracle
# decides; if it returns, the value must simply match)
NATURAL = ("E:nan", "E:inf", "E:neg", "alt:nan", "beta:nan", "alt:66", "E:zero", "E:huge", "E:tiny", "lat:over90", "lat:nan", "lat:under90", "lon:over180")


class ConstCloud:
    def __init__(self, top):
        self.top = top

    def __call__(self, lat, long):
        return np.single(self.top)


class PoisonCloud:
    """Wraps a cloud function; raises for the marker latitude (fault kind 'poison-cloud')."""

    def __init__(self, inner, exc=InjectedKernelFault):
        self.inner = inner
        self.exc = exc

    def __call__(self, lat, long):
        if lat == POISON_LAT:
            raise self.exc("injected failure while evaluating one event")
        return self.inner(lat, long) if self.inner else -np.inf


_POOLS = {}
_MEMO = {}
_CLOUDS = {}


def _pool(tier):
    """Fixed per (VERIF_SEED, tier) pool of events; runs draw indices into it so the oracle
    (4 ms per event) is memoised per worker process."""
    seed = int(os.environ.get("VERIF_SEED", "0"))
    key = (seed, tier)
    if key in _POOLS:
        return _POOLS[key]
    rng = random.Random(f"c10pool|{seed}")
    n = POOL_N[tier]
    ev = []
    edge_b = [0.0, math.radians(0.5), math.radians(0.999), math.radians(1.0), math.radians(42.0), math.radians(41.99)]
    edge_a = [0.0, 20.0, 19.999, 1e-9]
    for i in range(n):
        b = edge_b[i % len(edge_b)] if i < 12 else rng.uniform(0.0, math.radians(42.0))
        a = edge_a[(i // 2) % len(edge_a)] if i < 16 else rng.uniform(0.0, 20.0)
        e = 10 ** rng.uniform(-5.0, 4.0)
        if i in (3, 17):
            e = 1e-5
        if i in (5, 19):
            e = 1e4
        lat = rng.uniform(-1.5, 1.5)
        lon = rng.uniform(-3.1, 3.1)
        ev.append((b, a, e, lat, lon))
    # near-duplicate partners: the same event with one coordinate moved by a little less than
    # one float32 spacing, both values rounding to the same float32 (this code base computes in
    # float32: a cache keyed on a rounded coordinate confuses exactly such events; exact repeats
    # are harmless, and a difference far below float32 resolution changes no output bit)
    def straddle(x, sign):
        x32 = np.float32(x)
        return float(np.float64(x32) + sign * 0.45 * float(np.spacing(x32)))

    for t in range(N_TWINS):
        b, a, e, lat, lon = ev[16 + t]
        w = t % 4
        if w in (0, 1):
            if a <= 0.0 or a >= 20.0:
                a = 7.5 + t
            ev[16 + t] = (b, straddle(a, -1), e, lat, lon)
            ev.append((b, straddle(a, +1), e, lat, lon))
        elif w == 2:
            ev[16 + t] = (b, a, straddle(e, -1), lat, lon)
            ev.append((b, a, straddle(e, +1), lat, lon))
        else:
            ev[16 + t] = (straddle(b, -1), a, e, lat, lon)
            ev.append((straddle(b, +1), a, e, lat, lon))
    _POOLS[key] = ev
    return ev


def _cloud(kind):
    if kind in _CLOUDS:
        return _CLOUDS[kind]
    if kind == "none":
        c = None
    elif kind.startswith("const"):
        c = ConstCloud(float(kind[5:]))
    else:
        from nuspacesim.config import NssConfig, Simulation
        from nuspacesim.simulation.atmosphere.clouds import CloudTopHeight

        cfg = NssConfig()
        if kind == "repo-nocloud":
            cfg.simulation.cloud_model = Simulation.NoCloud()
        elif kind == "repo-mono":
            cfg.simulation.cloud_model = Simulation.MonoCloud(altitude=6.5)
        else:
            cfg.simulation.cloud_model = Simulation.PressureMapCloud(month=7)
        c = CloudTopHeight(cfg)
    _CLOUDS[kind] = c
    return c


def _bits(x):
    return np.asarray(x, dtype=np.float64).reshape(-1).view(np.int64)


def _seq(det_alt, kind, tier, i):
    """The reference: pool event i one at a time on a fresh object, no scheduler involved.
    ('ok', d, c) or ('exc', exception type name)."""
    key = (det_alt, kind, tier, i)
    if key not in _MEMO:
        _MEMO[key] = _eval_one(det_alt, kind, _pool(tier)[i])
    return _MEMO[key]


def _eval_one(det_alt, kind, ev):
    """One event, one at a time, on a fresh object.  Returns ('ok', d, c) or ('exc', type name)."""
    from nuspacesim.simulation.eas_optical.cphotang import CphotAng

    st = np.random.get_state()
    np.random.seed(20240917)  # the reference never depends on what ran before it
    try:
        fresh = CphotAng(det_alt)
        try:
            if hasattr(fresh, "run"):
                r = fresh.run(np.float64(ev[0]), np.float64(ev[1]), np.float64(ev[2]), np.float64(ev[3]), np.float64(ev[4]), _cloud(kind))
            else:
                import dask

                with dask.config.set(scheduler="synchronous"):
                    d, c = fresh(*[np.array([np.float64(x)]) for x in ev], _cloud(kind))
                r = (np.asarray(d).reshape(-1)[0], np.asarray(c).reshape(-1)[0])
        except BaseException as e:  # noqa: BLE001
            return ("exc", type(e).__name__)
        return ("ok", float(np.float64(r[0])), float(np.float64(r[1])))
    finally:
        np.random.set_state(st)


def warmup(tier):
    """Besides imports: the whole oracle table, in one fixed order, from the freshly imported
    state.  Every pool worker and every replay computes the same table the same way, so the
    reference cannot depend on which runs a process has seen."""
    env.load()
    import dask.bag  # noqa
    import dask.multiprocessing  # noqa
    import dask.threaded  # noqa

    pool = _pool(tier)
    for det_alt in DET_ALTS:
        for kind in CLOUD_KINDS:
            for i in range(len(pool)):
                _seq(det_alt, kind, tier, i)


def _draw_batch(ctx, tier, knob_on):
    ch = ctx.ch
    pool = _pool(tier)
    if knob_on:
        n = 1 + ch.draw(40, "N")
        idx = [ch.draw(len(pool), "event") for _ in range(n)]
        psize = 1 + ch.draw(max(1, n), "partition_size")
    else:
        # 1001 / 1203: more than ten partitions (two-digit partition indices)
        sizes = (100, 99, 101, 199, 200, 201, 250, 300, 400, 301, 1001, 1203)
        if tier == "thorough":
            sizes = sizes + (4100,)  # beyond 4096: a common size for "clear the cache when full"
        n = sizes[ch.draw(len(sizes), "N_literal")]
        start = ch.draw(len(pool), "event_start")
        stride = 1 + ch.draw(7, "event_stride")
        idx = [(start + k * stride) % len(pool) for k in range(n)]
        psize = None
    return idx, psize


def _poisoned_event(ev, poison_kind):
    ev = list(ev)
    if poison_kind.startswith("cloud:"):
        ev[3] = POISON_LAT
    else:
        field, what = poison_kind.split(":")
        k = {"beta": 0, "alt": 1, "E": 2, "lat": 3, "lon": 4}[field]
        # out-of-domain coordinates: what a cloud model does with them (raise, clamp) is the model's
        # business — the batch must do whatever one-at-a-time evaluation does
        ev[k] = {"nan": float("nan"), "inf": float("inf"), "neg": -abs(ev[k]) - 1.0, "66": 66.0, "zero": 0.0, "huge": 1e20, "tiny": 1e-30,
                 "over90": 90.000000001, "under90": -90.000000001, "over180": 180.000000001}[what]
    return tuple(ev)


def _arrays(tier, idx, poison_pos=None, poison_kind=None):
    pool = _pool(tier)
    ev = [list(pool[i]) for i in idx]
    if poison_pos is not None:
        ev[poison_pos] = list(_poisoned_event(ev[poison_pos], poison_kind))
    a = np.array(ev, dtype=np.float64).reshape(len(idx), 5)
    return tuple(np.ascontiguousarray(a[:, k]) for k in range(5))


def _expected(det_alt, kind, tier, idx, override=None):
    """Per position: ('ok', d, c) | ('exc', name).  override: {position: reference tuple}."""
    exp = [_seq(det_alt, kind, tier, i) for i in idx]
    for k, v in (override or {}).items():
        exp[k] = v
    return exp


def _compare(check, res, det_alt, kind, tier, idx, override=None):
    d, c = res
    d = np.asarray(d)
    c = np.asarray(c)
    n = len(idx)
    if d.ndim != 1 or c.ndim != 1 or d.shape[0] != n or c.shape[0] != n:
        raise Violation(f"{check}.length", f"batch of {n} events returned shapes {d.shape} and {c.shape}", sig="CphotAng.__call__")
    exp = _expected(det_alt, kind, tier, idx, override)
    failing = [k for k, e in enumerate(exp) if e[0] == "exc"]
    if failing:
        raise Violation(
            "c10.fault_not_surfaced",
            f"the event at position {failing[0]} of {n} raises {exp[failing[0]][1]} when evaluated one at a time, but the batch call returned a value",
            sig="CphotAng.__call__",
        )
    ed = _bits([e[1] for e in exp])
    ec = _bits([e[2] for e in exp])
    bd, bc = _bits(d), _bits(c)
    nan_ok = (np.isnan(np.asarray(d, dtype=np.float64)) & np.isnan([e[1] for e in exp])) , (np.isnan(np.asarray(c, dtype=np.float64)) & np.isnan([e[2] for e in exp]))
    bad = np.nonzero(((bd != ed) & ~nan_ok[0]) | ((bc != ec) & ~nan_ok[1]))[0]
    if bad.size:
        k = int(bad[0])
        raise Violation(
            f"{check}.bits",
            f"event at position {k} of {n} (pool #{idx[k]}): batch gave ({float(d[k])!r}, {float(c[k])!r}), "
            f"one-at-a-time gives {exp[k][1:]!r}; {bad.size} position(s) differ",
            sig="CphotAng.__call__",
            detail={"positions": [int(b) for b in bad[:20]]},
        )


def _fresh_cloud(kind):
    """A new cloud-function object of this kind (const kinds only): the caller's callables come and
    go between batch calls, and a freed one's address is recycled for the next."""
    if kind.startswith("const"):
        return ConstCloud(float(kind[5:]))
    return _cloud(kind)


def _one_batch(ctx, tier, det_alt, obj, kind, allow_faults, tag, fresh_cloud=False, cloud_obj=None):
    ch = ctx.ch
    knob_on = ch.draw(8, "knob") != 7  # value 7: leave the literal partition_size=100
    idx, psize = _draw_batch(ctx, tier, knob_on)
    n = len(idx)
    world = draw_world(ctx, env.repo_src(), allow_faults=allow_faults, n_items=n)
    if psize is None and ch.draw(2, "few_workers"):
        # with the literal partition size there are 1..4 partitions: worker counts below that
        # are where partitions queue behind each other
        world.workers = 1 + ch.draw(3, "few_workers_n")
        world._free = list(range(world.workers))
        world.cfg["stragglers"] = {w for w in world.cfg["stragglers"] if w < world.workers}
    poison_pos = poison_kind = None
    override = {}
    must_raise = False
    cloudf = cloud_obj if cloud_obj is not None else _fresh_cloud(kind) if fresh_cloud else _cloud(kind)
    cloud_obj = None
    if allow_faults and world.cfg["fault"] is None:
        pk = ch.draw(3, "poison")
        if pk == 1:  # an exception of a seeded type raised while one event is evaluated
            exc_t = POISON_EXC[ch.draw(len(POISON_EXC), "poison_exc")]
            poison_kind = "cloud:" + exc_t.__name__
            poison_pos = ch.draw(n, "poison_pos")
            cloudf = PoisonCloud(cloudf, exc_t)
            must_raise = True
        elif pk == 2:  # a natural failure: an input for which one-at-a-time evaluation raises
            poison_kind = NATURAL[ch.draw(len(NATURAL), "poison_input")]
            poison_pos = ch.draw(n, "poison_pos")
            ref = _eval_one(det_alt, kind, _poisoned_event(_pool(tier)[idx[poison_pos]], poison_kind))
            override = {poison_pos: ref}
            must_raise = ref[0] == "exc"
            if not must_raise:
                ctx.probes["unusual_input_evaluates:" + poison_kind] += 1
    args = _arrays(tier, idx, poison_pos, poison_kind)
    before = [a.tobytes() for a in args]
    npart = math.ceil(n / (psize or 100))
    ctx.log(f"{tag} batch N={n} partitions={npart} psize={psize or 'literal-100'} det_alt={det_alt:g} cloud={kind} poison={poison_kind}@{poison_pos}")
    ctx.describe.setdefault("batches", []).append(
        {"N": n, "partition_size": psize or "literal 100", "partitions": npart, "mode": world.mode, "workers": world.workers,
         "chunksize": world.chunksize, "quantum_policy": world.cfg.get("quantum_policy"), "stragglers": sorted(world.cfg["stragglers"]),
         "sched_fault": world.cfg["fault"], "poison": [poison_kind, poison_pos], "cloud": kind, "det_alt": det_alt}
    )
    res = exc = None
    with world.active(partition_knob=psize):
        try:
            res = obj(*args, cloudf)
        except HarnessError:
            raise
        except BaseException as e:  # the batch call raised
            exc = e
    ctx.log(f"{tag} returned={'value' if exc is None else type(exc).__name__} reordered={world.reordered()} switches={world.context_switches}")
    if world.n_gets == 0:
        ctx.probes["scheduler_seam_not_reached"] += 1
    if [a.tobytes() for a in args] != before:
        ctx.probes["batch_arguments_modified"] += 1
    fired = list(world.fired)
    if poison_kind and must_raise:
        fired.append("poison-" + poison_kind)
    for f in fired:
        ctx.faults[f] += 1
    ctx.probes["mode_" + world.mode] += 1
    if world.context_switches:
        ctx.probes["context_switch_inside_task"] += 1
    if world.preempt_after_hot:
        ctx.probes["preempt_after_shared_write"] += 1
    if world.reordered():
        ctx.probes["execution_order_differs_from_submission"] += 1
    if poison_pos is not None and poison_pos >= (npart - 1) * (psize or 100):
        ctx.probes["fault_in_last_partition"] += 1
    if poison_pos == 0:
        ctx.probes["fault_at_first_event"] += 1
    if psize is None:
        ctx.probes["literal_partition_size_100"] += 1
    if npart >= 2 and (world.reordered() or world.context_switches or fired):
        ctx.nontrivial = True
    return res, exc, fired, idx, world, override


def scn_faultfree(ctx):
    """No fault of any kind: the batch must return, in order, bit for bit; then a second
    batch on the same object under another schedule must as well."""
    from nuspacesim.simulation.eas_optical.cphotang import CphotAng

    ch, tier = ctx.ch, ctx.tier
    det_alt = DET_ALTS[ch.draw(3, "det_alt")]
    kind = CLOUD_KINDS[ch.draw(len(CLOUD_KINDS), "cloud")]
    obj = CphotAng(det_alt)
    nb = 1 + ch.draw(2, "second_batch")
    held = None
    vary = ch.draw(4, "second_batch_varies") if nb == 2 else 0
    last_cloud_id = None
    cobj = None

    consts = [k for k in CLOUD_KINDS if k.startswith("const")]
    if vary in (1, 3):
        kind = consts[ch.draw(len(consts), "const_kind")]
    for b in range(nb):
        tag = f"b{b}"
        if b == 1 and vary in (1, 3):
            # the second batch comes with ANOTHER cloud function (a new object; the first one is gone)
            kind = consts[(consts.index(kind) + 1 + ch.draw(len(consts) - 1, "other_const")) % len(consts)]
            ctx.probes["second_batch_other_cloud_object"] += 1
        if b == 1 and vary in (2, 3):
            # ... and/or on a shallow copy of the evaluator, re-parameterised for another detector altitude
            import copy

            obj = copy.copy(obj)
            det_alt = DET_ALTS[(DET_ALTS.index(det_alt) + 1 + ch.draw(2, "copy_alt")) % 3]
            obj.detector_altitude = det_alt
            ctx.probes["second_batch_on_reparameterised_shallow_copy"] += 1
        if vary in (1, 3):
            # the cloud function is created right here, and the previous one was dropped in the
            # statement before: CPython hands the freed slot to the next object of the same size,
            # so the new callable very often has the id() of the dead one
            cobj = None
            cobj = ConstCloud(float(kind[5:]))
            if last_cloud_id is not None and id(cobj) != last_cloud_id:
                # something of the finished call still held the old callable (a cycle): collect, then
                # keep creating callables, as a long session does, until the freed slot comes round
                import gc

                gc.collect()
                keep = [cobj]
                for _ in range(4000):
                    c2 = ConstCloud(float(kind[5:]))
                    if id(c2) == last_cloud_id:
                        cobj = c2
                        break
                    keep.append(c2)
                del keep
            ctx.probes["cloud_object_recycled_address"] += int(id(cobj) == last_cloud_id)
            last_cloud_id = id(cobj)
            res, exc, fired, idx, world, _ = _one_batch(ctx, tier, det_alt, obj, kind, False, tag, cloud_obj=cobj)
        else:
            res, exc, fired, idx, world, _ = _one_batch(ctx, tier, det_alt, obj, kind, False, tag)
        world = None  # nothing of the finished call may keep its cloud function alive (and no gc.collect()
        # here: an object that has been through a collection is not handed its old slot back)
        if held is not None and [np.asarray(a).tobytes() for a in held[0]] != held[1]:
            raise Violation("c10.result_overwritten", "the arrays returned by the first batch call changed while the caller held them (overwritten by the second call on the same object)", sig="CphotAng.__call__:aliasing")
        if exc is None and res is not None:
            held = (res, [np.asarray(a).tobytes() for a in res])
        if b == 0 and nb == 2 and ch.draw(2, "other_object") == 1:
            # another evaluator with another detector altitude comes to life and works between the
            # two batches (a second configuration in the same process): the first must not notice
            other_alt = DET_ALTS[(DET_ALTS.index(det_alt) + 1 + ch.draw(2, "other_alt")) % 3]
            other = CphotAng(other_alt)
            k = ch.draw(len(_pool(tier)), "other_event")
            oidx = [k, (k + 7) % len(_pool(tier))]
            w2 = SimWorld(ctx, env.repo_src(), mode="thread-atomic", workers=1, chunksize=1, cfg={"tick": False, "fault": None, "stragglers": set()})
            with w2.active(partition_knob=1):
                ores = other(*_arrays(tier, oidx), _cloud(kind))
            _compare("c10.other_object", ores, other_alt, kind, tier, oidx)
            ctx.probes["other_object_between_batches"] += 1
            del other
        if exc is not None:
            raise Violation(
                "c10.raised_without_fault",
                f"batch of {len(idx)} events raised {type(exc).__name__}: {exc} although every event evaluates one at a time",
                sig="CphotAng.__call__",
            )
        _compare("c10" if b == 0 else "c10.second_batch", res, det_alt, kind, tier, idx)
        zero = sum(1 for i in idx if _seq(det_alt, kind, tier, i) == ("ok", 0.0, 0.0))
        if zero:
            ctx.probes["early_return_events"] += zero


def scn_faults(ctx):
    """Exactly one fault source per batch (poisoned event at a seeded position, worker death,
    allocation failure at a seeded traced line).  If it fired, the batch call must raise;
    afterwards a fault-free batch on the same object must match again."""
    from nuspacesim.simulation.eas_optical.cphotang import CphotAng

    ch, tier = ctx.ch, ctx.tier
    det_alt = DET_ALTS[ch.draw(3, "det_alt")]
    kind = CLOUD_KINDS[ch.draw(len(CLOUD_KINDS), "cloud")]
    obj = CphotAng(det_alt)
    res, exc, fired, idx, world, override = _one_batch(ctx, tier, det_alt, obj, kind, True, "f0")
    if fired:
        if exc is None:
            raise Violation(
                "c10.fault_not_surfaced",
                f"fault {fired} fired while evaluating a batch of {len(idx)} events but the batch call returned a value",
                sig="CphotAng.__call__",
            )
    else:
        ctx.probes["fault_configured_but_not_fired"] += 1
        if exc is not None:
            raise Violation(
                "c10.raised_without_fault",
                f"batch raised {type(exc).__name__}: {exc} although no fault fired",
                sig="CphotAng.__call__",
            )
        _compare("c10", res, det_alt, kind, tier, idx, override)
    # bounded liveness: one call after faults stop
    res, exc, fired2, idx, world, _ = _one_batch(ctx, tier, det_alt, obj, kind, False, "f1")
    if exc is not None:
        raise Violation(
            "c10.no_recovery",
            f"after a failed batch, a fault-free batch on the same object raised {type(exc).__name__}: {exc}",
            sig="CphotAng.__call__",
        )
    _compare("c10.after_fault", res, det_alt, kind, tier, idx)


REAL = (("threads", 2), ("threads", 8), ("processes", 3), ("synchronous", 1), ("threads", 1), ("processes", 2), ("distributed", 4))


def scn_real(ctx):
    """Observation, not simulation: the same oracle under dask's REAL schedulers.  Exists because
    separate module globals per worker process cannot be modelled inside one interpreter.  A
    mismatch is re-run 5 times and reported with its reproduction rate."""
    import sys

    import dask
    from nuspacesim.simulation.eas_optical.cphotang import CphotAng

    ch, tier = ctx.ch, ctx.tier
    name, nw = REAL[ctx.idx % len(REAL)]  # round-robin over run indices (the index is in the replay file)
    det_alt = DET_ALTS[ch.draw(3, "det_alt")]
    kind = CLOUD_KINDS[ch.draw(len(CLOUD_KINDS), "cloud")]
    pool = _pool(tier)
    n = (12, 101, 230, 3, 37)[ch.draw(5, "N")]
    start = ch.draw(len(pool), "event_start")
    idx = [(start + k) % len(pool) for k in range(n)]
    poison = ch.draw(4, "poison") == 3
    ppos = ch.draw(n, "poison_pos") if poison else None
    args = _arrays(tier, idx, ppos, "alt:66" if poison else None)
    ctx.log(f"real scheduler={name} workers={nw} N={n} det_alt={det_alt:g} cloud={kind} poison@{ppos}")
    ctx.describe.update(real_scheduler=name, workers=nw, N=n, cloud=kind, det_alt=det_alt, poison_pos=ppos)
    ctx.probes[f"real_{name}"] += 1

    # one run in two: the caller has CUSTOMISED the evaluator — edited some of its tables in
    # place through the instance (a hazier aerosol profile, another ozone column).  The reference
    # is then the one-at-a-time evaluation on that same object, and the batch — whose worker
    # processes receive a pickled copy of the object — must agree with it.
    custom = None
    if not poison and ch.draw(2, "customised_evaluator"):
        probe_obj = CphotAng(det_alt)
        names = sorted(a for a in dir(probe_obj) if not a.startswith("_") and isinstance(getattr(probe_obj, a, None), np.ndarray)
                       and getattr(probe_obj, a).dtype.kind == "f" and getattr(probe_obj, a).size > 1 and getattr(probe_obj, a).flags.writeable)
        custom = [(a, (1.0, 0.9, 1.1)[ch.draw(3, "table_scale")]) for a in names]
        custom = [(a, f) for a, f in custom if f != 1.0]
        ctx.probes["customised_evaluator"] += 1
        ctx.describe["customised_tables"] = custom
        del probe_obj

    custom_obj = []

    def make():
        # the customised evaluator is ONE object: the reference and the batch both use it
        if custom_obj:
            return custom_obj[0]
        o = CphotAng(det_alt)
        if custom:
            for a, f in custom:
                arr = getattr(o, a)
                arr *= arr.dtype.type(f)  # in place, through the instance
            custom_obj.append(o)
        return o

    override = None
    if custom:
        ref_obj = make()
        st = np.random.get_state()
        np.random.seed(20240917)
        try:
            override = {}
            for k in range(n):
                ev = [np.float64(a[k]) for a in args]
                try:
                    r = ref_obj.run(*ev, _cloud(kind))
                    override[k] = ("ok", float(np.float64(r[0])), float(np.float64(r[1])))
                except BaseException as e:  # noqa: BLE001
                    override[k] = ("exc", type(e).__name__)
        finally:
            np.random.set_state(st)
        if any(v[0] == "exc" for v in override.values()):
            # the edited tables make an event fail one at a time: not a comparison this run can make
            ctx.probes["customised_evaluator_rejects_an_event"] += 1
            ctx.log("real: customised evaluator rejects an event one at a time; run skipped")
            return
        del ref_obj

    # spawned workers are separate interpreters with their own string-hash seed: give them one
    # that differs from this interpreter's (dask would otherwise pin 6640 or let them inherit)
    child_hash = str(5000 + ch.draw(1000, "worker_hashseed"))

    def once():
        import os

        out = sys.stdout
        sys.stdout = _NullOut()
        saved_hs = os.environ.get("PYTHONHASHSEED")
        os.environ["PYTHONHASHSEED"] = child_hash
        try:
            if name == "distributed":
                import logging

                from dask.distributed import Client

                logging.getLogger("distributed").setLevel(logging.CRITICAL)  # a poisoned event is logged by the worker otherwise
                client = Client(processes=False, n_workers=1, threads_per_worker=nw, dashboard_address=None)
                try:
                    try:
                        return make()(*args, _cloud(kind)), None
                    except BaseException as e:  # noqa: BLE001
                        return None, e
                finally:
                    client.close()
            with dask.config.set(scheduler=name, num_workers=nw, **{"multiprocessing.initializer": env.child_init}):
                try:
                    return make()(*args, _cloud(kind)), None
                except BaseException as e:  # noqa: BLE001
                    return None, e
        finally:
            sys.stdout = out
            if saved_hs is None:
                os.environ.pop("PYTHONHASHSEED", None)
            else:
                os.environ["PYTHONHASHSEED"] = saved_hs

    def verdict():
        res, exc = once()
        if poison:
            if exc is None:
                return Violation("c10.fault_not_surfaced", f"[real {name} x{nw}] an event at position {ppos} of {n} fails (IndexError) but the batch call returned a value", sig="CphotAng.__call__")
            return None
        if exc is not None:
            return Violation("c10.raised_without_fault", f"[real {name} x{nw}] batch of {n} raised {type(exc).__name__}: {str(exc)[:200]}", sig="CphotAng.__call__")
        try:
            _compare("c10.real", res, det_alt, kind, tier, idx, override)
        except Violation as v:
            v.message = f"[real {name} x{nw}] " + v.message
            return v
        return None

    v = verdict()
    if poison:
        ctx.faults["poison-alt:66"] += 1
    ctx.nontrivial = n > 100 or nw > 1
    if v is not None:
        again = sum(1 for _ in range(5) if verdict() is not None)
        v.message += f" (observational stage; reproduced in {again} of 5 immediate re-runs)"
        raise Violation(v.check, v.message, v.sig)
    ctx.log("real verdict=ok")


def scn_overlap(ctx):
    """Two (or three) batch calls on ONE evaluator overlap in time: each caller in a real thread
    that runs only while it holds the baton, pre-empted at repository-line granularity by the
    seeded scheduler (a notebook with a thread pool, a service answering requests).  At most one
    of the batches contains a failing event.  Each call on its own account: a healthy batch
    returns the one-at-a-time values in order, the batch with the failing event raises."""
    import dask
    import dask.diagnostics.progress as prog
    from nuspacesim.simulation.eas_optical.cphotang import CphotAng

    from ..schedsim import run_interleaved

    ch, tier = ctx.ch, ctx.tier
    det_alt = DET_ALTS[ch.draw(3, "det_alt")]
    kind = CLOUD_KINDS[ch.draw(len(CLOUD_KINDS), "cloud")]
    pool = _pool(tier)
    obj = CphotAng(det_alt)
    ncall = 2 + (ch.draw(4, "callers") == 3)
    faulty = ch.draw(ncall + 1, "faulty_caller") - 1  # -1: none
    batches, argsl, clouds, ppos = [], [], [], None
    for k in range(ncall):
        n = 1 + ch.draw(10, "N")
        idx = [ch.draw(len(pool), "event") for _ in range(n)]
        cf = _cloud(kind)
        pk = pp = None
        if k == faulty:
            pp = ppos = ch.draw(n, "poison_pos")
            pk = "cloud:" + POISON_EXC[0].__name__
            cf = PoisonCloud(cf, POISON_EXC[ch.draw(len(POISON_EXC), "poison_exc")])
        batches.append(idx)
        argsl.append(_arrays(tier, idx, pp, pk))
        clouds.append(cf)
    policy = ("targeted", "fine", "targeted", "mixed")[ch.draw(4, "quanta")]
    ctx.log(f"overlap callers={ncall} sizes={[len(b) for b in batches]} faulty={faulty}@{ppos} det_alt={det_alt:g} cloud={kind} quanta={policy}")
    ctx.describe.update(callers=ncall, sizes=[len(b) for b in batches], faulty_caller=faulty, poison_pos=ppos, det_alt=det_alt, cloud=kind, quanta=policy)

    def caller(k):
        def go():
            return obj(*argsl[k], clouds[k])
        return go

    saved = (prog.ProgressBar._start, prog.ProgressBar._finish, sys.stdout)
    prog.ProgressBar._start = lambda bar, dsk: None  # no timer thread: nothing runs outside the baton
    prog.ProgressBar._finish = lambda bar, dsk, state, errored: None
    sys.stdout = _NullOut()
    try:
        with dask.config.set(scheduler="synchronous"):
            res, switches = run_interleaved(ctx, env.repo_src(), [caller(k) for k in range(ncall)], policy)
    finally:
        prog.ProgressBar._start, prog.ProgressBar._finish, sys.stdout = saved
    ctx.probes["overlapping_batch_calls_context_switches"] += switches
    ctx.nontrivial = switches > 0
    if faulty >= 0:
        ctx.faults["poison-cloud-in-overlapping-batch"] += 1
    ctx.log(f"switches={switches} outcomes={['exc:' + type(e).__name__ if e else 'ok' for _, e in res]}")
    for k, (r, e) in enumerate(res):
        if isinstance(e, HarnessError):
            raise e
        if k == faulty:
            if e is None:
                raise Violation("c10.fault_not_surfaced", f"[overlap] caller {k}: the event at position {ppos} of {len(batches[k])} fails but the batch call returned a value", sig="CphotAng.__call__")
            continue
        if e is not None:
            raise Violation("c10.raised_without_fault", f"[overlap] caller {k} of {ncall} sharing one evaluator raised {type(e).__name__}: {str(e)[:160]} although every event of ITS batch evaluates one at a time", sig="CphotAng.__call__:overlap")
        _compare("c10.overlap", r, det_alt, kind, tier, batches[k])


def scn_strict(ctx):
    """The process runs with DeprecationWarning promoted to an error (python -W error, pytest -W
    error): whatever one-at-a-time evaluation does under that filter — raise or return — the
    batch must do under every interleaving.  The warnings filter list is process-global state
    that a per-event `warnings.catch_warnings()` saves and restores without any lock."""
    import warnings

    from nuspacesim.simulation.eas_optical.cphotang import CphotAng

    ch, tier = ctx.ch, ctx.tier
    warnings.filterwarnings("error", category=DeprecationWarning)  # this run lives in a forked child
    det_alt = DET_ALTS[ch.draw(3, "det_alt")]
    kind = ("none", "const2", "repo-mono")[ch.draw(3, "cloud")]
    pool = _pool(tier)
    n = 2 + ch.draw(24, "N")
    idx = [ch.draw(len(pool), "event") for _ in range(n)]
    exp = [_eval_one(det_alt, kind, pool[i]) for i in idx]
    world = draw_world(ctx, env.repo_src(), allow_faults=False, n_items=n, force_mode="interleaved")
    world.cfg["quantum_policy"] = ("fine", "mixed", "targeted")[ch.draw(3, "strict_quanta")]
    psize = 1 + ch.draw(max(1, n // 2), "partition_size")
    ctx.log(f"strict N={n} psize={psize} det_alt={det_alt:g} cloud={kind} one_at_a_time={'raises' if any(e[0] == 'exc' for e in exp) else 'returns'}")
    ctx.describe.update(N=n, partition_size=psize, workers=world.workers, quantum_policy=world.cfg["quantum_policy"], warnings="error::DeprecationWarning")
    res = exc = None
    with world.active(partition_knob=psize):
        try:
            res = CphotAng(det_alt)(*_arrays(tier, idx), _cloud(kind))
        except HarnessError:
            raise
        except BaseException as e:  # noqa: BLE001
            exc = e
    ctx.probes["warnings_as_errors_run"] += 1
    ctx.nontrivial = world.context_switches > 0
    must_raise = any(e[0] == "exc" for e in exp)
    ctx.probes["strict_one_at_a_time_raises" if must_raise else "strict_one_at_a_time_returns"] += 1
    if must_raise:
        if exc is None:
            raise Violation("c10.fault_not_surfaced", "under -W error::DeprecationWarning an event raises one at a time, but the batch returned", sig="CphotAng.__call__")
        return
    if exc is not None:
        raise Violation("c10.raised_without_fault", f"under -W error::DeprecationWarning every event evaluates one at a time, but the batch of {n} raised {type(exc).__name__}: {str(exc)[:160]} (interleaved, {world.context_switches} context switches)", sig="CphotAng.__call__")
    d, c = np.asarray(res[0]), np.asarray(res[1])
    bad = np.nonzero((_bits(d) != _bits([e[1] for e in exp])) | (_bits(c) != _bits([e[2] for e in exp])))[0] if d.shape == (n,) else [0]
    if len(bad):
        raise Violation("c10.bits", f"under -W error::DeprecationWarning: batch of {n} differs from one-at-a-time at position {int(bad[0])}", sig="CphotAng.__call__")


def scn_huge(ctx):
    """More events than numpy's 8192-element iterator buffer, and one column that is not float64
    (integer energies, float32 altitudes ...): the batch is built from whatever array types the
    caller has.  The reference evaluates each distinct event one at a time with scalars of the
    same types.  Expensive (seconds per run): two runs in the quick tier."""
    from nuspacesim.simulation.eas_optical.cphotang import CphotAng

    ch, tier = ctx.ch, ctx.tier
    det_alt = DET_ALTS[ch.draw(3, "det_alt")]
    kind = ("none", "const2")[ch.draw(2, "cloud")]
    pool = _pool(tier)
    fast = [i for i, e in enumerate(pool) if e[0] > 0.45][:12] or list(range(8))
    n = 8193 + ch.draw(300, "N_huge")
    variant = ("E:int", "alt:float32", "beta:float32", "all:float32")[ctx.idx % 4]
    start = ch.draw(len(fast), "start")
    stride = 1 + ch.draw(5, "stride")
    sub = [fast[(start + k * stride) % len(fast)] for k in range(n)]
    cols = [np.array([pool[i][c] for i in sub], dtype=np.float64) for c in range(5)]
    if variant == "E:int":
        cols[2] = np.maximum(1, np.round(cols[2] * 3.0 + np.arange(n) % 7)).astype(np.int64)
    elif variant == "alt:float32":
        cols[1] = cols[1].astype(np.float32)
    elif variant == "beta:float32":
        cols[0] = cols[0].astype(np.float32)
    else:
        cols = [c.astype(np.float32) for c in cols]
    ctx.log(f"huge N={n} variant={variant} det_alt={det_alt:g} cloud={kind} distinct={len(set(sub))}")
    ctx.describe.update(N=n, variant=variant, det_alt=det_alt, cloud=kind)
    # reference: distinct rows only (the values repeat with period <= len(fast) * 7)
    ref = {}
    fresh_cloud = _cloud(kind)

    def one(k):
        key = tuple((c.dtype.str, c[k].item()) for c in cols)
        if key not in ref:
            st = np.random.get_state()
            np.random.seed(20240917)
            try:
                r = CphotAng(det_alt).run(cols[0][k], cols[1][k], cols[2][k], cols[3][k], cols[4][k], fresh_cloud)
                ref[key] = ("ok", float(np.float64(r[0])), float(np.float64(r[1])))
            except BaseException as e:  # noqa: BLE001
                ref[key] = ("exc", type(e).__name__)
            finally:
                np.random.set_state(st)
        return ref[key]

    exp = [one(k) for k in range(n)]
    world = SimWorld(ctx, env.repo_src(), mode=("thread-atomic", "process")[ch.draw(2, "mode")], workers=1 + ch.draw(4, "workers"), chunksize=(1, 6)[ch.draw(2, "chunksize")],
                     cfg={"tick": False, "fault": None, "stragglers": set(), "cost_spread": 4})
    before = [c.tobytes() for c in cols]
    res = exc = None
    with world.active():
        try:
            res = CphotAng(det_alt)(*cols, fresh_cloud)
        except HarnessError:
            raise
        except BaseException as e:  # noqa: BLE001
            exc = e
    ctx.probes["batch_gt_8192"] += 1
    ctx.probes["column_" + variant] += 1
    ctx.nontrivial = True
    if any(e[0] == "exc" for e in exp):
        if exc is None:
            raise Violation("c10.fault_not_surfaced", "an event of the batch raises one at a time but the batch returned", sig="CphotAng.__call__")
        return
    if exc is not None:
        raise Violation("c10.raised_without_fault", f"batch of {n} events ({variant}) raised {type(exc).__name__}: {str(exc)[:200]} although every event evaluates one at a time", sig="CphotAng.__call__")
    d, c = np.asarray(res[0]), np.asarray(res[1])
    if d.shape != (n,) or c.shape != (n,):
        raise Violation("c10.huge.length", f"batch of {n} events returned shapes {d.shape} and {c.shape}", sig="CphotAng.__call__")
    bad = np.nonzero((_bits(d) != _bits([e[1] for e in exp])) | (_bits(c) != _bits([e[2] for e in exp])))[0]
    if bad.size:
        k = int(bad[0])
        raise Violation("c10.huge.bits", f"batch of {n} events with column {variant}: position {k} gave ({float(d[k])!r}, {float(c[k])!r}), the same event one at a time (same scalar types) gives {exp[k][1:]!r}; {bad.size} position(s) differ", sig="CphotAng.__call__")
    if [c_.tobytes() for c_ in cols] != before:
        ctx.probes["batch_arguments_modified"] += 1


class _NullOut:
    def write(self, s):
        return len(s)

    def flush(self):
        pass

    def isatty(self):
        return False


FAMILIES = {"faultfree": scn_faultfree, "faults": scn_faults, "real": scn_real, "huge": scn_huge, "strict": scn_strict, "overlap": scn_overlap}
OBSERVATIONAL = ("real",)

PLAN = {
    "quick": [("huge", 2, 1), ("faultfree", 900, 6), ("faults", 500, 6), ("real", 21, 1), ("strict", 60, 4), ("overlap", 120, 6)],
    "thorough": [("faultfree", 40000, 20), ("faults", 20000, 20), ("real", 300, 2), ("huge", 16, 1), ("strict", 3000, 10), ("overlap", 6000, 20)],
}
BUDGET = {"quick": 300, "thorough": 2700}

META = {
    "rule": (
        "one run = one seeded scenario: detector altitude, cloud function, batch (1..40 events from a fixed pool, or "
        "99..400 with the literal partition_size=100 and 1..3 workers half of the time), partition size, scheduler mode (thread-atomic / interleaved / process / "
        "free-order), 1..16 workers, chunksize, job costs, stragglers, pre-emption quanta, and in the fault family one fault "
        "(a failure of a seeded exception type injected at a seeded event, a natural failure such as a NaN energy, worker death, or an allocation failure at a traced line); "
        "family 'real' repeats the oracle under dask's real synchronous/threaded/multi-process schedulers (observational); "
        "a run is non-trivial when the batch has >= 2 partitions AND (execution order != submission order OR >= 1 context switch "
        "inside a task OR a fault fired); distinct = distinct sha256 digests of the simulator event log among non-trivial runs"
    ),
    "components_real": [
        "nuspacesim CphotAng.__call__/run and everything it calls", "numpy", "zsteps extension (or its Python transliteration, see 'zsteps')",
        "dask.bag graph construction and optimisation", "dask.threaded.get / dask.multiprocessing.get", "dask.local.get_async incl. dask.order, state machine, callbacks",
        "cloudpickle round trip of (task, data) per job in process mode", "dask exception packing / re-raising", "ProgressBar._update_bar/_draw_bar",
    ],
    "components_simulated": [
        "executor: which job starts, runs, completes or dies next (SimPool)", "thread pre-emption (baton-passed real threads, sys.settrace line events)",
        "progress-bar timer thread (virtual-time ticks; _start/_finish replaced)", "dask.local.queue_get", "timeit.default_timer in dask.diagnostics.progress",
        "free-order mode: dask's scheduler replaced by a seeded topological executor (callbacks do not run there)",
        "process mode: separate address spaces modelled by pickle round trips and per-worker numpy RNG state inside one interpreter (module globals are shared)",
    ],
    "assumptions": [
        "the reference 'one event at a time' is CphotAng(det_alt).run(event, cloudf) on a fresh object with no scheduler; it is memoised per worker process",
        "events come from a fixed pool per (VERIF_SEED, tier): inputs are sampled, not enumerated",
        "dask.distributed is not simulated; the property names the synchronous, threaded and multi-process schedulers",
        "duplicate (speculative) execution of a task is not injected: none of the three local schedulers re-executes",
        "pre-emption granularity is one Python source line of repository code; races inside a single numpy call are invisible",
        "the empty batch is not compared (np.empty([]) has no observable to compare bit for bit)",
        "the interpreter runs under PYTHONHASHSEED derived from VERIF_SEED; spawned workers of the real 'processes' runs get another, seeded one",
        "the pool contains 8 pairs of events that differ in one coordinate by less than a float32 spacing (same float32, different float64)",
    ],
}
