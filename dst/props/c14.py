"""C14 — a full run is reproducible, channel-isolated and structurally complete (DESIGN §7)."""

from __future__ import annotations

import struct
import sys

import numpy as np

from .. import env, seams
from ..configs import draw_config
from ..core import HarnessError, Violation
from ..schedsim import SimWorld, draw_world

LEVEL = "exploration"

PLOTS = ("taus_pexit", "taus_density_beta", "taus_histogram", "geom_beta_tr_hist", "spectra_histogram", "eas_optical_density", "eas_optical_histogram")
GEOM = ["beta_rad", "theta_rad", "path_len"]
COMMON = ["init_lat", "init_lon", "log_e_nu", "tauBeta", "tauLorentz", "tauEnergy", "showerEnergy", "tauExitProb", "altDec", "lenDec"]
OPT_COLS = ["numPEs", "costhetaChEff"]
RAD_COLS = ["EFields"]
OPT_KEYS = ["OMCINT", "OMCINTGO", "ONEVPASS", "OMCINTUN"]
RAD_KEYS = ["RMCINT", "RMCINTGO", "RNEVPASS", "RMCINTUN"]


class _Null:
    def write(self, s):
        return len(s)

    def flush(self):
        pass

    def isatty(self):
        return False


def warmup(tier):
    env.load()
    import dask
    from nuspacesim.config import NssConfig

    compute = sys.modules["nuspacesim.compute"].compute
    for mode in ("Diffuse", "Target"):
        cfg = NssConfig()
        cfg.simulation.mode = mode
        cfg.simulation.thrown_events = 6 if mode == "Diffuse" else 60
        np.random.seed(1)
        out = sys.stdout
        sys.stdout = _Null()
        try:
            with dask.config.set(scheduler="synchronous"):
                compute(cfg)
        finally:
            sys.stdout = out


def _fbits(v):
    try:
        return struct.pack("<d", float(v)).hex()
    except Exception:  # noqa: BLE001
        return repr(v)


def canon(t):
    """Table -> (colnames, {col: bytes}, [(key, canonical value)])."""
    cols = {}
    for n in t.colnames:
        c = t[n]
        if hasattr(c, "jd1"):
            cols[n] = np.ascontiguousarray(c.jd1).tobytes() + np.ascontiguousarray(c.jd2).tobytes()
        else:
            cols[n] = str(np.asarray(c).dtype).encode() + str(np.asarray(c).shape).encode() + np.ascontiguousarray(np.asarray(c)).tobytes()
    meta = []
    for k, v in t.meta.items():
        if isinstance(v, tuple) and len(v) == 2:
            val = v[0]
        else:
            val = v
        if isinstance(val, (float, np.floating)):
            meta.append((k, "f:" + _fbits(val)))
        else:
            meta.append((k, repr(val)))
    return list(t.colnames), cols, meta


class _AsciiOut:
    """A terminal that can only show ASCII (LC_ALL=C, PYTHONIOENCODING=ascii, a legacy code page)."""

    encoding = "ascii"
    errors = "strict"

    def write(self, s):
        s.encode("ascii")  # raises UnicodeEncodeError like a real ascii stream
        return len(s)

    def flush(self):
        pass

    def isatty(self):
        return False


def run_compute(cfg, rng_seed, clock_s, world=None, psize=None, stdout=None, tz=None, **kw):
    """One compute() under the seams.  Returns ('ok', table, clock_reads) or ('exc', exception, reads)."""
    import dask

    compute = sys.modules["nuspacesim.compute"].compute
    import os
    import time as _time

    np.random.seed(rng_seed)
    out = sys.stdout
    sys.stdout = stdout if stdout is not None else _Null()
    saved_tz = os.environ.get("TZ")
    if tz is not None:
        os.environ["TZ"] = tz
        _time.tzset()
    try:
        with seams.simulated_clock(lambda: clock_s) as clk:
            try:
                if world is None:
                    with dask.config.set(scheduler="synchronous"):
                        t = compute(cfg, **kw)
                else:
                    with world.active(partition_knob=psize):
                        t = compute(cfg, **kw)
            except HarnessError:
                raise
            except Exception as e:  # noqa: BLE001
                return "exc", e, clk.reads
            return "ok", t, clk.reads
    finally:
        sys.stdout = out
        if tz is not None:
            if saved_tz is None:
                os.environ.pop("TZ", None)
            else:
                os.environ["TZ"] = saved_tz
            _time.tzset()


def _diff(a, b, ignore_keys=()):
    """First difference between two canonical tables, or None."""
    if a[0] != b[0]:
        return f"column names/order differ: {a[0]} vs {b[0]}"
    for n in a[0]:
        if a[1][n] != b[1][n]:
            return f"column {n} differs bit for bit"
    ma = [m for m in a[2] if m[0] not in ignore_keys]
    mb = [m for m in b[2] if m[0] not in ignore_keys]
    if ma != mb:
        da = [m for m in ma if m not in mb][:3]
        db = [m for m in mb if m not in ma][:3]
        return f"header differs: {da} vs {db}"
    return None


def _set_channels(cfg, optical, radio):
    c = cfg.model_copy(deep=True)
    c.detector.optical.enable = optical
    c.detector.radio.enable = radio
    return c


def _perturbed(cfg, factor=1.07, pick=None):
    """The same kind of run with real-valued settings (all, or those `pick` selects) slightly different (the configuration
    has far more fields than the cross product explores): used as the run that happened earlier
    in the process.  Fields that refuse the new value keep the old one."""
    c = cfg.model_copy(deep=True)
    changed = []

    def walk(obj, path):
        fields = getattr(type(obj), "model_fields", None)
        if not fields:
            return
        for name in fields:
            try:
                v = getattr(obj, name)
            except Exception:  # noqa: BLE001
                continue
            if isinstance(v, bool) or v is None:
                continue
            if isinstance(v, float):
                if pick is not None and not pick(path + name):
                    continue
                try:
                    setattr(obj, name, v * factor if v != 0.0 else 0.01)
                    changed.append(path + name)
                except Exception:  # noqa: BLE001
                    pass
            elif hasattr(type(v), "model_fields"):
                walk(v, path + name + ".")

    walk(c, "")
    return c, changed


def scn_full(ctx):
    from nuspacesim.simulation.geometry.region_geometry import RegionGeom, RegionGeomToO
    from nuspacesim.simulation.taus.taus import Taus, massTau

    ch = ctx.ch
    cfg, desc = draw_config(ch, max_events=60)
    s = desc["rng_seed"]
    T0 = float(ch.draw(4 * 365 * 86400, "clock"))
    ctx.describe.update(config=desc, clock=T0)
    ctx.log(f"config {desc} clock={T0:.0f}")
    target = desc["mode"] == "Target"
    opt, rad = desc["optical"], desc["radio"]
    if desc.get("want_all_decays_outside_optical_window"):
        # directed scenario: survivors exist but none decays inside the 0-20 km optical window.
        # The generator seed is searched (bounded, deterministic) with both channels off, which
        # is cheap and draws the same random numbers up to the decay stage.
        probe_cfg = _set_channels(cfg, False, False)
        for j in range(150):
            stp, tp, _ = run_compute(probe_cfg, s + j, T0)
            if stp == "ok" and len(tp) > 0 and "altDec" in tp.colnames:
                a = np.asarray(tp["altDec"])
                if ((a < 0) | (a > 20)).all():
                    s = s + j
                    desc["rng_seed"] = s
                    ctx.probes["survivors_all_outside_optical_window"] += 1
                    break
        ctx.log(f"directed: seed {s} (searched {j + 1})")

    st, R0, reads = run_compute(cfg, s, T0)
    # survivors according to the geometry stage itself, same random numbers
    np.random.seed(s)
    g = (RegionGeomToO if target else RegionGeom)(cfg)
    try:
        g.throw(cfg.simulation.thrown_events)
        survivors = int(len(g.beta_rad()))
    except Exception:  # noqa: BLE001
        survivors = None
    ctx.log(f"R0 {st} survivors={survivors}")
    if st == "exc":
        if survivors == 0:
            raise Violation("c14.empty_run_fails", f"a run in which no trajectory survives raised {type(R0).__name__}: {R0}", sig="compute")
        ctx.probes["nonempty_reference_run_raised"] += 1
        ctx.log(f"R0 raised {type(R0).__name__}: {str(R0)[:120]}")
        return
    c0 = canon(R0)
    rows = len(R0)
    ctx.describe["rows"] = rows
    if rows == 0:
        ctx.probes["zero_survivor_run"] += 1
    elif rows == 1:
        ctx.probes["single_survivor_run"] += 1
    elif rows <= 3:
        ctx.probes["two_or_three_survivor_run"] += 1
    ctx.probes[f"cell_{desc['mode']}_{desc['spectrum'].split('(')[0]}_{desc['cloud'].split('(')[0]}_opt{int(opt)}_rad{int(rad)}"] += 1

    # ---- (d) structure -------------------------------------------------------------------
    if survivors is not None and rows != survivors:
        raise Violation("c14.rows", f"table has {rows} rows, the geometry stage keeps {survivors} trajectories for the same random numbers", sig="rows")
    exp_cols = GEOM + (["times"] if target else [])
    if rows > 0:
        exp_cols += COMMON
        if opt:
            exp_cols += OPT_COLS + (["tmcintopt"] if target else [])
        if rad:
            exp_cols += RAD_COLS + (["tmcintrad"] if target else [])
    missing = [c for c in exp_cols if c not in R0.colnames]
    if missing:
        raise Violation("c14.columns_missing", f"column(s) {missing} missing from the results table (has {R0.colnames})", sig="columns")
    for cname in R0.colnames:
        if len(R0[cname]) != rows:
            raise Violation("c14.column_length", f"column {cname} has length {len(R0[cname])}, table has {rows} rows", sig=f"column:{cname}")
    unexpected = [c for c in R0.colnames if c in OPT_COLS + ["tmcintopt"] and not opt] + [c for c in R0.colnames if c in RAD_COLS + ["tmcintrad"] and not rad]
    if unexpected:
        raise Violation("c14.disabled_channel_columns", f"column(s) {unexpected} of a disabled channel are present", sig="columns")
    keys = list(R0.meta.keys())
    if "simTime" not in keys:
        raise Violation("c14.header", "header lacks simTime", sig="simTime")
    if rows > 0:
        for on, ks, nm in ((opt, OPT_KEYS, "optical"), (rad, RAD_KEYS, "radio")):
            if on:
                miss = [k for k in ks if k not in keys]
                if miss:
                    raise Violation("c14.integral_keywords", f"{nm} channel enabled but header lacks {miss}", sig=f"keywords:{nm}")
            else:
                extra = [k for k in ks if k in keys]
                if extra:
                    raise Violation("c14.integral_keywords", f"{nm} channel disabled but header has {extra}", sig=f"keywords:{nm}")
    if not any(k.startswith("HIERARCH Config") or k.startswith("Config") for k in keys):
        raise Violation("c14.header", "header lacks the flattened configuration", sig="config")
    # simTime is the simulated clock
    st_val = R0.meta["simTime"][0] if isinstance(R0.meta["simTime"], tuple) else R0.meta["simTime"]
    if st_val != seams.sim_time_string(T0):
        raise Violation("c14.simtime", f"simTime {st_val!r} is not the clock at start {seams.sim_time_string(T0)!r}", sig="simTime")
    if rows > 0:
        _alignment(ctx, R0, cfg, g, target, opt, massTau, Taus)
    else:
        # (e) empty but valid: can be written to FITS and read back
        import io

        from astropy.table import Table

        bio = io.BytesIO()
        try:
            R0.write(bio, format="fits")
            back = Table.read(io.BytesIO(bio.getvalue()), format="fits")
        except Exception as e:  # noqa: BLE001
            raise Violation("c14.empty_table_invalid", f"empty results table cannot be written/read as FITS: {type(e).__name__}: {e}", sig="empty")
        if len(back) != 0 or [c for c in GEOM if c not in back.colnames]:
            raise Violation("c14.empty_table_invalid", f"empty results table reads back with {len(back)} rows, columns {back.colnames}", sig="empty")

    # ---- (a) reproducibility under simulated schedulers, (b) clock ----------------------------
    nsched = 3 if (opt and rows > 0) else 1
    if rows > 100:
        nsched = min(nsched, 2)
        ctx.probes["more_than_100_rows"] += 1
    jump_at = ch.draw(nsched, "clock_jump_run")
    for j in range(nsched):
        n_in = int(np.count_nonzero((np.asarray(R0["altDec"]) >= 0) & (np.asarray(R0["altDec"]) <= 20))) if rows else 0
        knob = None
        if n_in > 1 and ch.draw(4, "partition_knob") != 3:
            knob = 1 + ch.draw(n_in, "partition_size")
        world = draw_world(ctx, env.repo_src(), allow_faults=False, n_items=max(1, n_in))
        Tj = T0
        if j == jump_at:
            Tj = T0 + (1 + ch.draw(10**6, "clock_jump")) * (-1 if ch.draw(2, "jump_back") else 1)
            Tj = max(0.0, Tj)
            ctx.faults["clock_jump"] += 1
        stj, Rj, _ = run_compute(cfg, s, Tj, world, knob)
        ctx.log(f"R{j + 1} mode={world.mode} workers={world.workers} psize={knob} in_range={n_in} clock={Tj:.0f} -> {stj} gets={world.n_gets} reordered={world.reordered()} switches={world.context_switches}")
        ctx.probes["mode_" + world.mode] += 1
        if world.n_gets and (world.reordered() or world.context_switches) and n_in > 1:
            ctx.nontrivial = True
        if opt and rows and n_in and world.n_gets == 0:
            ctx.probes["scheduler_seam_not_reached"] += 1
        if stj == "exc":
            raise Violation("c14.schedule_dependent", f"run raised {type(Rj).__name__}: {Rj} under simulated scheduler {world.mode} (workers={world.workers}) but returned under the synchronous one", sig="compute")
        cj = canon(Rj)
        d = _diff(c0, cj, ignore_keys=("simTime",))
        if d:
            raise Violation("c14.schedule_dependent", f"results under simulated scheduler {world.mode} (workers={world.workers}, partition_size={knob}) differ from the synchronous run with the same seed: {d}", sig="compute")
        stv = Rj.meta["simTime"][0] if isinstance(Rj.meta["simTime"], tuple) else Rj.meta["simTime"]
        if stv != seams.sim_time_string(Tj):
            raise Violation("c14.simtime", f"simTime {stv!r} is not the clock at start {seams.sim_time_string(Tj)!r}", sig="simTime")

    # ---- presentation options must not change results: verbose logging, plot hooks ----------------
    po = ch.draw(6, "presentation")
    if po >= 4 and rows > 0:
        kw = {"verbose": True} if po == 4 else {"to_plot": [PLOTS[ch.draw(len(PLOTS), "plot")]]}
        import matplotlib.pyplot as plt

        try:
            stp, Rp, _ = run_compute(cfg, s, T0, **kw)
        finally:
            plt.close("all")
        ctx.log(f"R_presentation {kw} -> {stp}")
        ctx.probes["run_verbose" if po == 4 else "run_with_plot_hook"] += 1
        if stp == "exc":
            # the logging / plotting code's own trouble with this table is not this property's business
            ctx.probes["presentation_option_raised"] += 1
        else:
            d = _diff(c0, canon(Rp))
            if d:
                raise Violation("c14.presentation_changes_results", f"with {kw} the results differ from the plain run with the same seed: {d}", sig="compute:" + ("verbose" if po == 4 else "plot"))

    # ---- the environment of the process must not change the table: terminal encoding, time zone ----
    envd = ch.draw(6, "environment")
    if envd >= 4:
        ekw = {"stdout": _AsciiOut()} if envd == 4 else {"tz": ("JST-9", "EST5EDT", "Australia/Lord_Howe", "UTC")[ch.draw(4, "tz")]}
        ste, Re, _ = run_compute(cfg, s, T0, **ekw)
        ctx.log(f"R_environment {('ascii-stdout' if envd == 4 else ekw)} -> {ste}")
        ctx.probes["run_with_ascii_stdout" if envd == 4 else "run_in_other_time_zone"] += 1
        if ste == "exc":
            raise Violation("c14.environment_dependent", f"with {'an ASCII-only stdout' if envd == 4 else 'TZ=' + ekw['tz']} the run raised {type(Re).__name__}: {str(Re)[:160]}; in the default environment it returns", sig="compute:" + ("stdout" if envd == 4 else "tz"))
        d = _diff(c0, canon(Re))
        if d:
            raise Violation("c14.environment_dependent", f"with {'an ASCII-only stdout' if envd == 4 else 'TZ=' + ekw['tz']} the results differ from the run in the default environment with the same seed: {d}", sig="compute:" + ("stdout" if envd == 4 else "tz"))

    # ---- what ran earlier in the process must not matter: a run of ANOTHER configuration (every real-
    # valued setting a few per cent off, same switches), then this one again ----------------------
    if rows > 0 and ch.draw(5, "after_another_configuration") == 4:
        # a seeded subset of the settings: a stale cache keyed on SOME of them shows only when
        # exactly the others differ
        other, changed = _perturbed(cfg, pick=lambda nm: ch.draw(2, "perturb") == 1)
        sto, Ro, _ = run_compute(other, s + 1, T0)
        stq, Rq, _ = run_compute(cfg, s, T0)
        ctx.log(f"R_other({len(changed)} settings changed) -> {sto}; R_again -> {stq}")
        ctx.probes["run_after_another_configuration"] += 1
        if sto == "exc":
            ctx.probes["perturbed_configuration_raised"] += 1
        if stq == "exc":
            raise Violation("c14.history_dependent", f"after a run of another configuration in the same process the run raised {type(Rq).__name__}: {str(Rq)[:160]}; first in the process it returns", sig="compute:after-other-config")
        d = _diff(c0, canon(Rq))
        if d:
            raise Violation("c14.history_dependent", f"after a run of another configuration in the same process ({len(changed)} real-valued settings a few per cent off) the results differ from the same seeded run made first: {d}", sig="compute:after-other-config")

    # ---- the ORDER in which configurations are run in a process must not matter: a family of
    # configurations (a base with every real-valued setting off the default, and variants that
    # differ from it in ONE setting — a parameter scan) is run in one order in one process and in
    # the reverse order in another; each configuration's table must be the same in both.  (The
    # default configuration cannot serve as the base: the warm-up run has been through the process.)
    if rows > 0 and ch.draw(20, "configuration_scan_in_two_orders") == 19:
        from .. import core

        base, names = _perturbed(cfg)
        k0 = ch.draw(max(1, len(names)), "scan_first_setting")
        scan = [names[(k0 + 4 * j) % len(names)] for j in range(min(5, len(names)))] if names else []
        fam = [("base", base)] + [(nm, _perturbed(base, 1.05, pick=lambda x, nm=nm: x == nm)[0]) for nm in scan]

        def series(order):
            outl = {}
            for nm, c in order:
                stx, Rx, _ = run_compute(c, s + 3, T0)
                outl[nm] = ("ok", canon(Rx)) if stx == "ok" else ("exc", type(Rx).__name__)
            return outl

        ctx.probes["configuration_scan_in_two_orders"] += 1
        pairs = []
        for var in fam[1:]:
            # pairwise, each pair in its own two processes: a third configuration run in between
            # would refresh whatever the first one left behind
            fwd = core.in_fork(series, [fam[0], var])
            rev = core.in_fork(series, [var, fam[0]])
            pairs += [(nm, fwd[nm], rev[nm]) for nm in fwd]
        ctx.log(f"scan base+{scan} outcomes={[(nm, a_[0], b_[0]) for nm, a_, b_ in pairs]}")
        for nm, a_, b_ in pairs:
            if a_[0] != b_[0]:
                raise Violation("c14.history_dependent", f"parameter scan (base + one setting changed at a time: {scan}): configuration '{nm}' {'raises ' + str(a_[1]) if a_[0] == 'exc' else 'returns'} when the scan runs forward and {'raises ' + str(b_[1]) if b_[0] == 'exc' else 'returns'} when it runs in reverse order", sig="compute:scan-order")
            if a_[0] == "ok":
                d = _diff(a_[1], b_[1])
                if d:
                    raise Violation("c14.history_dependent", f"parameter scan (base + one setting changed at a time: {scan}): the seeded run of configuration '{nm}' gives different results when the scan runs forward and in reverse order in a process: {d}", sig="compute:scan-order")

    # ---- (c) channel isolation ----------------------------------------------------------------
    if opt and rad and rows > 0:
        for (o, r, nm) in ((True, False, "radio off"), (False, True, "optical off")):
            stc, Rc, _ = run_compute(_set_channels(cfg, o, r), s, T0)
            ctx.log(f"R_{nm.replace(' ', '_')} -> {stc}")
            if stc == "exc":
                raise Violation("c14.channel_isolation", f"with {nm} the run raised {type(Rc).__name__}: {Rc}", sig=nm)
            cc = canon(Rc)
            keep_cols = [c for c in c0[0] if not ((c in RAD_COLS + ["tmcintrad"] and not r) or (c in OPT_COLS + ["tmcintopt"] and not o))]
            if cc[0] != keep_cols:
                raise Violation("c14.channel_isolation", f"with {nm} the columns are {cc[0]}, expected {keep_cols}", sig=nm)
            for n in keep_cols:
                if cc[1][n] != c0[1][n]:
                    raise Violation("c14.channel_isolation", f"with {nm} column {n} changed", sig=f"{nm}:{n}")
            drop = set((RAD_KEYS if not r else []) + (OPT_KEYS if not o else []))
            m0 = [m for m in c0[2] if m[0] not in drop and not m[0].endswith(" enable")]
            mc = [m for m in cc[2] if not m[0].endswith(" enable")]
            if m0 != mc:
                da = [m for m in m0 if m not in mc][:3]
                db = [m for m in mc if m not in m0][:3]
                raise Violation("c14.channel_isolation", f"with {nm} header values changed: {da} vs {db}", sig=nm)
        ctx.probes["channel_isolation_checked"] += 1
        ctx.nontrivial = True
    if rows == 0:
        ctx.nontrivial = True
    # the table returned first must still be what it was (a later run must not write into
    # arrays a previous run handed out)
    d = _diff(c0, canon(R0))
    if d:
        raise Violation("c14.result_overwritten", f"the table returned by the first run changed while later runs executed in the same process: {d}", sig="compute:aliasing")


def _alignment(ctx, R0, cfg, g, target, opt, massTau, Taus):
    from astropy import units
    from astropy.constants import R_earth

    def col(n):
        return np.asarray(R0[n], dtype=np.float64)

    def close(a, b, name, tol=1e-12):
        a, b = np.asarray(a, dtype=np.float64), np.asarray(b, dtype=np.float64)
        ok = (a == b) | (np.abs(a - b) <= tol * np.maximum(np.abs(a), np.abs(b))) | (np.isnan(a) & np.isnan(b))
        if not ok.all():
            i = int(np.nonzero(~ok)[0][0])
            raise Violation("c14.cross_stage_alignment", f"{name}: row {i} has {a[i]!r}, recomputation from the other columns gives {b[i]!r} ({int((~ok).sum())} rows differ)", sig=f"align:{name}")

    for n, ref in (("beta_rad", g.beta_rad()), ("theta_rad", g.thetas()), ("path_len", g.pathLens())):
        if np.ascontiguousarray(col(n)).tobytes() != np.ascontiguousarray(np.asarray(ref, dtype=np.float64)).tobytes():
            raise Violation("c14.cross_stage_alignment", f"column {n} is not what the geometry stage returns for the same random numbers", sig=f"align:{n}")
    close(col("tauLorentz"), col("tauEnergy") / massTau, "tauLorentz == tauEnergy/m_tau")
    close(col("showerEnergy"), cfg.simulation.tau_shower.etau_frac * col("tauEnergy") / 1e8, "showerEnergy == etau_frac*tauEnergy/1e8")
    close(col("tauBeta"), np.sqrt(1.0 - np.reciprocal(col("tauLorentz") ** 2)), "tauBeta == sqrt(1-1/gamma^2)")
    Re = R_earth.to(units.km).value
    close(col("altDec"), np.sqrt(Re**2 + col("lenDec") ** 2 + 2.0 * Re * col("lenDec") * np.sin(col("beta_rad"))) - Re, "altDec from beta_rad, lenDec", tol=1e-9)
    try:
        pe = Taus(cfg).tau_exit_prob(col("beta_rad"), col("log_e_nu"))
        close(col("tauExitProb"), pe, "tauExitProb == exit probability of (beta_rad, log_e_nu)", tol=1e-9)
    except ValueError:
        ctx.probes["exit_prob_recomputation_rejected"] += 1
    lat, lon = g.find_lat_long_along_traj(np.zeros_like(col("beta_rad")))
    close(col("init_lat"), lat, "init_lat from geometry")
    close(col("init_lon"), lon, "init_lon from geometry")
    if opt:
        _optical_rows(ctx, R0, cfg, col)
        out = (col("altDec") < 0) | (col("altDec") > 20)
        if np.any(col("numPEs")[out] != 0):
            i = int(np.nonzero(out & (col("numPEs") != 0))[0][0])
            raise Violation("c14.cross_stage_alignment", f"numPEs is {col('numPEs')[i]!r} in row {i} whose decay altitude {col('altDec')[i]!r} km is outside [0,20]", sig="align:numPEs")
        if out.any():
            ctx.probes["rows_outside_optical_altitude_range"] += 1


REAL = (("threads", 2), ("threads", 8), ("processes", 3), ("threads", 1), ("distributed", 4))


def scn_real(ctx):
    """Observation, not simulation: compute() under dask's REAL threaded / multi-process
    schedulers against the synchronous run with the same seed and clock."""
    import dask

    ch = ctx.ch
    cfg, desc = draw_config(ch, max_events=60, allow_zero=False)
    cfg.detector.optical.enable = True  # the schedule only matters for the optical stage
    desc["optical"] = True
    s = desc["rng_seed"]
    T0 = float(ch.draw(4 * 365 * 86400, "clock"))
    name, nw = REAL[ctx.idx % len(REAL)]  # round-robin over run indices (the index is in the replay file)
    if name == "distributed" and desc["mode"] == "Diffuse":
        cfg.simulation.thrown_events = desc["thrown_events"] = 180 + ch.draw(120, "events_distributed")  # several partitions
    ctx.describe.update(config=desc, clock=T0, real_scheduler=name, workers=nw)
    ctx.log(f"real config {desc} clock={T0:.0f} scheduler={name} x{nw}")
    ctx.probes[f"real_{name}"] += 1
    st, R0, _ = run_compute(cfg, s, T0)
    if st == "exc":
        ctx.probes["nonempty_reference_run_raised"] += 1
        return
    c0 = canon(R0)

    child_hash = str(5000 + ch.draw(1000, "worker_hashseed"))

    def once():
        import os

        compute = sys.modules["nuspacesim.compute"].compute
        np.random.seed(s)
        out = sys.stdout
        sys.stdout = _Null()
        saved_hs = os.environ.get("PYTHONHASHSEED")
        os.environ["PYTHONHASHSEED"] = child_hash  # spawned workers: their own string-hash seed
        try:
            if name == "distributed":
                # an in-process dask.distributed cluster (1 worker, nw threads) becomes the default scheduler
                import logging

                from dask.distributed import Client

                logging.getLogger("distributed").setLevel(logging.CRITICAL)  # a poisoned event is logged by the worker otherwise
                client = Client(processes=False, n_workers=1, threads_per_worker=nw, dashboard_address=None)
                try:
                    with seams.simulated_clock(lambda: T0):
                        try:
                            return _diff(c0, canon(compute(cfg)))
                        except Exception as e:  # noqa: BLE001
                            return f"raised {type(e).__name__}: {str(e)[:200]}"
                finally:
                    client.close()
            with seams.simulated_clock(lambda: T0), dask.config.set(scheduler=name, num_workers=nw, **{"multiprocessing.initializer": env.child_init}):
                try:
                    return _diff(c0, canon(compute(cfg)))
                except Exception as e:  # noqa: BLE001
                    return f"raised {type(e).__name__}: {str(e)[:200]}"
        finally:
            sys.stdout = out
            if saved_hs is None:
                os.environ.pop("PYTHONHASHSEED", None)
            else:
                os.environ["PYTHONHASHSEED"] = saved_hs

    d = once()
    ctx.nontrivial = len(R0) > 1
    if d:
        again = sum(1 for _ in range(5) if once())
        raise Violation("c14.schedule_dependent", f"[real {name} x{nw}] results differ from the synchronous run with the same seed: {d} (observational stage; reproduced in {again} of 5 immediate re-runs)", sig="compute")
    ctx.log("real verdict=ok")


def _optical_rows(ctx, R0, cfg, col):
    """Row alignment of the optical columns: a few in-range rows are re-evaluated one at a time
    from the stored inputs of the same row (a permuted numPEs column is a permutation of the
    right values and passes every whole-column check)."""
    from nuspacesim.simulation.atmosphere.clouds import CloudTopHeight
    from nuspacesim.simulation.eas_optical.cphotang import CphotAng

    inr = np.nonzero((col("altDec") >= 0) & (col("altDec") <= 20))[0]
    if not inr.size:
        return
    pick = sorted(set(int(inr[k]) for k in (0, len(inr) // 3, len(inr) // 2, (2 * len(inr)) // 3, len(inr) - 1)))
    ck = CphotAng(cfg.detector.initial_position.altitude)
    if not hasattr(ck, "run"):
        ctx.probes["optical_row_recomputation_unavailable"] += 1
        return
    cloud = CloudTopHeight(cfg)
    # numPEs is the photon density of the row's shower times a detector constant; the constant
    # is not asserted (it is the optical stage's business), only that it is the SAME for every
    # sampled row and that a shower without light has no photo-electrons
    ratios = []
    for r in pick:
        try:
            d, _ = ck.run(col("beta_rad")[r], col("altDec")[r], col("showerEnergy")[r], col("init_lat")[r], col("init_lon")[r], cloud)
        except Exception:  # noqa: BLE001
            ctx.probes["optical_row_recomputation_raised"] += 1
            return
        d = float(np.float64(d))
        got = float(col("numPEs")[r])
        if d == 0.0:
            if got != 0.0:
                raise Violation("c14.cross_stage_alignment", f"numPEs in row {r} is {got!r} but the shower of that row (its beta_rad, altDec, showerEnergy, init_lat, init_lon) gives no light", sig="align:numPEs-row")
            continue
        ratios.append((r, got / d, got, d))
    if len(ratios) >= 2:
        ref_r = ratios[0]
        for r, q, got, d in ratios[1:]:
            if not (q == ref_r[1] or abs(q - ref_r[1]) <= 1e-9 * max(abs(q), abs(ref_r[1]))):
                raise Violation(
                    "c14.cross_stage_alignment",
                    f"numPEs is not aligned with the rows' showers: row {ref_r[0]} has numPEs/photon-density = {ref_r[1]!r}, row {r} has {q!r} "
                    f"(numPEs {got!r}, photon density of the shower built from the same row's beta_rad, altDec, showerEnergy, init_lat, init_lon {d!r})",
                    sig="align:numPEs-row",
                )
    ctx.probes["optical_rows_recomputed"] += len(pick)


FAMILIES = {"full": scn_full, "real": scn_real}
OBSERVATIONAL = ("real",)
PLAN = {"quick": [("full", 1200, 4), ("real", 15, 1)], "thorough": [("full", 40000, 10), ("real", 300, 2)]}
BUDGET = {"quick": 200, "thorough": 2400}

META = {
    "rule": (
        "one run = one seeded configuration from {Diffuse,Target} x {mono,power-law} x {no cloud, mono cloud, pressure map} x optical on/off x radio on/off x "
        "detector altitude x events x tables x target/date x RNG seed x simulated clock; it is executed under the real synchronous scheduler (R0), under 1-3 "
        "simulated schedulers (schedsim: mode, workers, partition size, orders, pre-emption; one of them with the clock jumped), and with each channel switched off; "
        "non-trivial: a simulated scheduler actually reordered or pre-empted >= 2 shower tasks, or channel isolation was compared, or the run had zero survivors; "
        "distinct = distinct event-log digests"
    ),
    "components_real": ["nuspacesim.compute and every stage", "numpy global RNG", "astropy tables, time and coordinate transforms (bundled IERS data)",
                        "dask graph + get_async (see C10)"],
    "components_simulated": ["executor / thread interleaving (schedsim, see C10)", "wall clock (results_table.datetime)", "progress-bar timer"],
    "assumptions": [
        "row count reference: the repository's own geometry stage run with the same random numbers",
        "cross-stage consistency is checked by recomputing each derived column from the columns it is defined from (tolerance 1e-12 relative; 1e-9 for sqrt-based ones)",
        "IERS auto-download is off; the bundled astropy-iers-data is used",
        "configurations whose fault-free reference run raises although trajectories survive are counted (probes.nonempty_reference_run_raised), not judged here",
        "fault kind 'clock_jump': the simulated wall clock is moved between runs; nothing but simTime may change",
    ],
}
