"""C17 — staged output is prefix-consistent at stage boundaries and after stage failure (DESIGN §5, §7)."""

from __future__ import annotations

import os
import time

from .. import env
from ..configs import draw_config
from ..core import Chooser, Violation, derive_seed
from .. import crashsim

LEVEL = "fault_enumeration"
SHRINK = (40, 150.0)
ISOLATE = False  # isolation is per configuration (the whole _config_task runs in a forked child)
RAISE_TYPES = ("Exception", "KeyboardInterrupt", "Exception", "SystemExit", "Exception", "MemoryError", "Exception")
KINDS = ("reference", "die", "raise", "staging-off-named", "staging-off-unnamed", "concurrent", "ioerr", "retry", "torn", "fsize")
WHERE = ("boundary", "stage-edge", "interior", "anywhere", "inside-fits-writer")

_REF = {}


def warmup(tier):
    env.load()
    from nuspacesim.config import NssConfig

    src = os.path.realpath(os.path.join(env.repo_src(), "nuspacesim")) + os.sep
    for mode in ("Diffuse", "Target"):
        cfg = NssConfig()
        cfg.simulation.mode = mode
        cfg.simulation.thrown_events = 6 if mode == "Diffuse" else 60
        crashsim.reference_run(cfg, 1, 0.0, src)


def _src():
    return os.path.realpath(os.path.join(env.repo_src(), "nuspacesim")) + os.sep


OUTNAMES = ("out.fits", "out.fits", "out.fit", "OUT.FITS", "results", "run.fits.v2", "stages.dat")


PLOTS = ("taus_pexit", "taus_density_beta", "geom_beta_tr_hist", "spectra_histogram", "eas_optical_histogram")


def _reference(key, cfg, rng_seed, clock, outname="out.fits", compute_kw=None):
    if key in _REF:
        return _REF[key]
    if len(_REF) > 6:
        _REF.clear()
    ref = crashsim.reference_run(cfg, rng_seed, clock, _src(), outname, compute_kw)
    ref["outname"] = outname
    ref["compute_kw"] = compute_kw
    ref["problems"] = _reference_oracle(ref)
    _REF[key] = ref
    return ref


def _reference_oracle(ref):
    """Checks on the fault-free staged run.  Returns [(check, message, sig)]."""
    out = []
    if ref["status"] != "returned":
        return out
    K = ref["K"]
    grow = [n for (n, sp) in zip(ref["stage_names"], ref["spans"]) if sp[2]]
    final = ref["final"]
    fparsed = crashsim.parse_fits(final) if final is not None else None
    for k in range(1, K + 1):
        name = grow[k - 1] if k - 1 < len(grow) else "?"
        s, w = ref["snaps"][k], ref["sides"][k]
        if s is None:
            out.append(("c17.boundary_file_missing", f"after stage boundary {k} ({name}) no output file exists", f"boundary:{name}"))
            continue
        diff = crashsim.describe_diff(s, w)
        if diff:
            out.append(("c17.boundary_content", f"after stage boundary {k} of {K} ({name}) the file is not the table of all stages completed so far: {diff}", f"boundary:{name}"))
            continue
        # identical to the corresponding part of the final table
        try:
            cn, cols, cards, rows = crashsim.parse_fits(s)
        except Exception as e:  # noqa: BLE001
            out.append(("c17.boundary_unreadable", f"file after boundary {k} ({name}) unreadable: {e}", f"boundary:{name}"))
            continue
        if fparsed is not None:
            fcn, fcols, fcards, frows = fparsed
            if cn != fcn[: len(cn)]:
                out.append(("c17.prefix_of_final", f"columns after boundary {k} ({name}) {cn} are not a prefix of the final table's {fcn}", f"boundary:{name}"))
            else:
                for n in cn:
                    if cols[n] != fcols[n]:
                        out.append(("c17.prefix_of_final", f"column {n} stored at boundary {k} ({name}) differs from the same column of the final table", f"column:{n}"))
                        break
                miss = [c for c in cards if c not in fcards]
                if miss:
                    out.append(("c17.prefix_of_final", f"header value(s) {miss[:3]} stored at boundary {k} ({name}) differ from the final table's", f"boundary:{name}"))
    if K >= 1 and final is not None and ref["snaps"][K] is not None:
        diff = crashsim.describe_diff(ref["snaps"][K], final)
        if diff:
            out.append(("c17.last_equals_final", f"the file after the last stage differs from the final table: {diff}", "final"))
    # other files next to the output while staging is ON are not the property's business (an
    # atomic tmp+rename writer, say, is free to use one): counted as a probe by the caller.
    # With staging OFF any file at all is a violation (see the staging-off cases).
    return out


def scn_case(ctx):
    ch = ctx.ch
    cfg, desc = draw_config(ch, max_events=40)
    clock = float(ch.draw(4 * 365 * 86400, "clock"))
    outname = OUTNAMES[ch.draw(len(OUTNAMES), "output_name")]  # the name is the user's: not every name ends in .fits
    desc["output_name"] = outname
    po = ch.draw(8, "presentation")  # 6: verbose logging, 7: a plot hook (non-interactive backend)
    compute_kw = {"verbose": True} if po == 6 else {"to_plot": [PLOTS[ch.draw(len(PLOTS), "plot")]]} if po == 7 else {"_output_as_pathlike": True} if po in (4, 5) else None
    if compute_kw:
        desc["compute_options"] = compute_kw
        ctx.probes["case_with_" + ("verbose_logging" if po == 6 else "plot_hook" if po == 7 else "output_file_as_pathlib_Path")] += 1
    key = tuple(ch.values())
    ref = _reference(key, cfg, desc["rng_seed"], clock, outname, compute_kw)
    K = ref["K"]
    ctx.describe.update(config=desc, clock=clock, boundaries=K, rows=ref["rows"], ref_steps=ref["steps"])
    ctx.log(f"config {desc} clock={clock:.0f}")
    ctx.log(f"reference status={ref['status'][:60]} K={K} rows={ref['rows']} steps={ref['steps']} tdigests={ref['tdigests'][1:]}")
    if ref["status"] != "returned":
        ctx.probes["reference_run_raised"] += 1
        # does the run fail only because intermediate writing is on?
        if "plain" not in ref:
            fr0 = crashsim.fault_run(cfg, desc["rng_seed"], clock, _src(), None, write_stages=False, give_output=True, outname=outname, compute_kw=compute_kw)
            ref["plain"] = fr0["report"]["status"]
        ctx.log(f"same configuration with staging off: {ref['plain'][:60]}")
        if ref["plain"] == "returned":
            ctx.violate("c17.staging_breaks_run", f"with intermediate writing on the run raises ({ref['status'][:200]}); the same configuration with it off returns", "staging-on-raises")
        return
    if ref["rows"] == 0:
        ctx.probes["zero_survivor_config"] += 1
    if ref["rows"] == 1:
        ctx.probes["single_survivor_config"] += 1
    ctx.probes[f"boundaries_{K}"] += 1
    for check, msg, sig in ref["problems"]:
        ctx.violate(check, msg, sig)
    if [x for x in ref["listing"] if x not in (outname, "side")]:
        ctx.probes["other_files_next_to_output"] += 1
    kind = KINDS[ch.draw(len(KINDS), "case_kind")]
    ctx.describe["case"] = kind
    if kind == "reference":
        ctx.steps += ref["steps"]
        ctx.nontrivial = K >= 1
        ctx.log(f"case reference-only boundaries_checked={K}")
        return
    src = _src()
    if kind == "concurrent":
        _concurrent_case(ctx, cfg, desc, clock)
        return
    if kind == "ioerr":
        _ioerr_case(ctx, cfg, desc, clock, ref)
        return
    if kind == "retry":
        _retry_case(ctx, cfg, desc, clock, ref)
        return
    if kind == "torn":
        _ioerr_case(ctx, cfg, desc, clock, ref, torn=True)
        return
    if kind == "fsize":
        _fsize_case(ctx, cfg, desc, clock, ref)
        return
    if kind.startswith("staging-off"):
        named = kind.endswith("-named")
        fr = crashsim.fault_run(cfg, desc["rng_seed"], clock, src, None, write_stages=False, give_output=named, outname=outname, compute_kw=compute_kw)
        rep = fr["report"]
        ctx.steps += rep.get("steps", 0)
        ctx.log(f"case {kind} status={rep['status'][:40]} listing={fr['listing']} audit={len(rep.get('audit', []))}")
        ctx.nontrivial = True
        ctx.probes["staging_off_runs"] += 1
        if fr["listing"]:
            ctx.violate("c17.staging_off_writes", f"with intermediate writing disabled the run left {fr['listing']} in its working directory", "staging-off")
        inside = [a for a in rep.get("audit", []) if "c17case-" in a[1] or not a[1].startswith("/")]
        if inside:
            ctx.violate("c17.staging_off_writes", f"with intermediate writing disabled the run opened/removed {inside[:3]}", "staging-off")
        outside = [a for a in rep.get("audit", []) if a not in inside and a[1] not in ("/dev/null",)]
        if outside:
            ctx.probes["writes_outside_scratch_dir"] += 1
        if rep["status"] == "returned" and crashsim.describe_diff(fr["final"], ref["final"]):
            ctx.probes["staging_flag_changes_result"] += 1
        return
    # --- die / raise at a seeded step -------------------------------------------------
    where = WHERE[ch.draw(len(WHERE), "where")]
    spans = ref["spans"]
    bsteps = ref["bsteps"]
    trace_fits = False
    if where == "boundary":
        k = ch.draw(K + 1, "boundary_k")
        step = bsteps[k] + 1
        target = f"boundary k={k}"
    elif where == "stage-edge":
        grow = [sp for sp in spans if sp[2]] or spans
        j = ch.draw(len(grow), "edge_stage")
        side = ch.draw(2, "edge_side")
        step = grow[j][0] if side == 0 else grow[j][1]
        target = f"{'first' if side == 0 else 'last'} step of growing stage {j}"
    elif where == "interior":
        cand = [sp for sp in spans if sp[1] > sp[0]]
        j = ch.draw(len(cand), "interior_stage")
        a, b = cand[j][0], cand[j][1]
        step = a + (b - a) * ch.draw(1000, "interior_frac") // 1000
        target = f"inside stage span {cand[j][:2]}"
    elif where == "anywhere":
        step = 1 + ch.draw(max(1, ref["steps"]), "any_step")
        target = "anywhere"
    else:
        trace_fits = True
        # the L-th traced line inside astropy.io.fits during the stage that follows boundary k
        fits_k = ch.draw(max(1, K), "fits_k")
        fits_line = 1 + ch.draw(14000, "fits_line")
        step = None
        target = f"line {fits_line} of astropy.io.fits frames in the stage after boundary {fits_k} (observed, not asserted)"
    fkind = "die" if kind == "die" else "raise"
    if step is not None:
        step = max(1, step)
        fault = {"kind": fkind, "step": step}
    else:
        fault = {"kind": fkind, "step": None, "fits_k": fits_k, "fits_line": fits_line}
    if fkind == "raise":
        # the type of what the stage raises (derived from the fault position: no extra choice)
        fault["exc"] = RAISE_TYPES[(step if step is not None else fits_line) % len(RAISE_TYPES)]
        ctx.describe["raised_type"] = fault["exc"]
    ctx.describe.update(where=where, step=step, target=target)
    fr = crashsim.fault_run(cfg, desc["rng_seed"], clock, src, fault, trace_fits=trace_fits, outname=outname, compute_kw=compute_kw)
    rep = fr["report"]
    fired = rep.get("fired") if rep["status"] != "died" else rep
    ctx.steps += (fired or rep).get("step", rep.get("steps", 0)) if isinstance(fired or rep, dict) else 0
    if not fired:
        ctx.probes["fault_step_beyond_run"] += 1
        ctx.log(f"case {fkind} {where} step={step}: not fired status={rep['status'][:40]}")
        diff = crashsim.describe_diff(fr["file"], ref["snaps"][K] if K else None)
        if diff and not trace_fits:
            ctx.violate("c17.unfaulted_run_differs", f"run without a fired fault left a file different from the reference: {diff}", "nofault")
        return
    k = fired["k"]
    in_stage = fired["in_stage"]
    ctx.faults[f"{fkind}"] += 1
    if fkind == "raise" and fault.get("exc") != "Exception":
        ctx.faults["raise:" + fault["exc"]] += 1
    ctx.probes[f"fault_{'inside_stage' if in_stage else 'between_stages'}"] += 1
    if "cphotang.py" in fired["site"]:
        ctx.probes["fault_inside_dask_task"] += 1
    if fired.get("in_fits"):
        ctx.probes["fault_inside_fits_writer"] += 1
    ctx.nontrivial = True
    ctx.log(f"case {fkind} {where} step={step} -> fired k={k} in_stage={in_stage} site={fired['site']} status={rep['status'][:40]} file={'absent' if fr['file'] is None else len(fr['file'])}")
    if k > K:
        ctx.violate("c17.more_boundaries_than_reference", f"fault run completed {k} boundaries, reference has {K}", "k")
        return
    if trace_fits and fired.get("in_fits"):
        # process death / failure inside the FITS writer: the property promises nothing; classify
        cls = "absent" if fr["file"] is None else None
        if cls is None:
            for kk in (k, min(K, k + 1)):
                if crashsim.describe_diff(fr["file"], ref["snaps"][kk]) is None:
                    cls = "old" if kk == k else "new"
                    break
        if cls is None:
            try:
                crashsim.parse_fits(fr["file"])
                cls = "readable-other"
            except Exception:  # noqa: BLE001
                cls = "unreadable-or-truncated"
        ctx.probes[f"inside_writer_leaves_{cls}"] += 1
        return
    if rep["status"] == "returned":
        # the injected exception was swallowed and compute() went on: the file must then be
        # the child's own final table
        ctx.probes["injected_exception_swallowed"] += 1
        diff = crashsim.describe_diff(fr["file"], fr["final"])
        if diff:
            ctx.violate("c17.file_after_swallowed_failure", f"compute() returned after an injected failure at {fired['site']} but the file differs from its final table: {diff}", "swallowed")
        return
    allowed = [k] if not in_stage else [k, min(K, k + 1)]
    diffs = [crashsim.describe_diff(fr["file"], ref["snaps"][kk]) for kk in allowed]
    if all(diffs):
        what = "the process died" if fkind == "die" else "a stage raised"
        pos = f"inside stage {k + 1}" if in_stage else f"between stages (after boundary {k})"
        ctx.violate(
            "c17.file_after_failure",
            f"{what} at {fired['site']} {pos} of {K}: the file left on disk is not the last completed prefix: {diffs[0]}",
            f"{fkind}:{'in' if in_stage else 'between'}",
            detail={"k": k, "K": K, "site": fired["site"], "step": step},
        )
    stray = [x for x in fr["listing"] if x not in (outname,)]
    if stray:
        # e.g. the scratch file of a tmp+rename writer killed between write and rename: the
        # statement is about the output file, which was checked above
        ctx.probes["other_files_left_after_failure"] += 1


def _other_fs_tmpdir():
    """A fresh directory on a file system other than the one the runs' directories live on
    (None if the machine has none that is writable)."""
    import tempfile

    try:
        here = os.stat(tempfile.gettempdir()).st_dev
        for cand in ("/dev/shm", "/run/user/%d" % os.getuid(), "/var/tmp"):
            if os.path.isdir(cand) and os.access(cand, os.W_OK) and os.stat(cand).st_dev != here:
                return tempfile.mkdtemp(prefix="c17tmp-", dir=cand)
    except OSError:
        pass
    return None


def _ioerr_case(ctx, cfg, desc, clock, ref, torn=False):
    """The disk refuses (ENOSPC) the j-th file the run opens for writing — a failure raised by
    the stage's own store.  Afterwards the output file must still be a completed prefix
    (k or k+1, as for any failure inside a stage), and every boundary the run goes on to
    complete must show its own table."""
    ch = ctx.ch
    K = ref["K"]
    if torn:
        # a write call of the FITS layer puts half of its bytes on disk, then EIO (or death)
        j = 1 + ch.draw(max(1, 5 * K), "torn_write_call")
        mode = ("raise", "die")[ch.draw(4, "torn_mode") == 3]
        tear = ch.draw(3, "tear_point")  # 0: half; 1: before the last non-blank 80-byte record; 2: at a 512-byte sector boundary
        sector = ch.draw(64, "tear_sector")
        # one case in two: the user's $TMPDIR lies on another file system than the output
        # directory (anything staged there reaches the output by a copy, not by a rename)
        other = _other_fs_tmpdir() if ch.draw(2, "tmpdir_on_another_file_system") else None
        if other:
            ctx.probes["tmpdir_on_another_file_system"] += 1
        try:
            fr = crashsim.fault_run(cfg, desc["rng_seed"], clock, _src(),
                                    {"kind": "torn", "write_call": j, "mode": mode, "tear": tear, "sector": sector, "step": None, "tmpdir": other}, outname=ref["outname"], compute_kw=ref["compute_kw"])
        finally:
            if other:
                import shutil

                shutil.rmtree(other, ignore_errors=True)
    else:
        j = 1 + ch.draw(max(1, K), "io_write_no")
        mode = "raise"
        fr = crashsim.fault_run(cfg, desc["rng_seed"], clock, _src(), {"kind": "ioerr", "write_no": j, "step": None}, outname=ref["outname"], compute_kw=ref["compute_kw"])
    rep = fr["report"]
    io = rep.get("io")
    if torn and rep["status"] == "died":
        # death inside a stage's write: the statement speaks of death BETWEEN stages; classified only
        k = io["k"] or 0
        cls = "absent" if fr["file"] is None else "other"
        for kk, nm in ((min(K, k), "old"), (min(K, k + 1), "new")):
            if fr["file"] is not None and crashsim.describe_diff(fr["file"], ref["snaps"][kk]) is None:
                cls = nm
                break
        ctx.faults["torn_write_then_death"] += 1
        ctx.probes[f"torn_write_death_leaves_{cls}"] += 1
        ctx.nontrivial = True
        ctx.log(f"case torn/die write_call={j} -> {io} leaves={cls}")
        return
    ctx.steps += rep.get("steps", 0)
    ctx.log(f"case ioerr write_no={j} -> fired={io} status={rep['status'][:50]} k_final={rep['k_final']} file={'absent' if fr['file'] is None else len(fr['file'])} mismatch={rep.get('boundary_mismatch')}")
    if not io:
        ctx.probes["fault_step_beyond_run"] += 1
        return
    ctx.faults["torn_write_then_eio" if torn else "io_error_enospc"] += 1
    ctx.nontrivial = True
    if rep.get("boundary_mismatch"):
        kk, diff = rep["boundary_mismatch"]
        ctx.violate("c17.boundary_after_io_error", f"{'a write was torn (EIO)' if torn else f'the {j}-th write was refused by the disk'}, the run went on, and after its stage boundary {kk} the file is not the table of the stages completed so far: {diff}", "ioerr:continued")
        return
    k = io["k"] if io["k"] is not None else 0
    if rep["status"] == "returned":
        ctx.probes["run_returned_despite_io_error"] += 1
        diff = crashsim.describe_diff(fr["file"], fr["final"])
        if diff:
            ctx.violate("c17.boundary_after_io_error", f"the {j}-th write was refused by the disk, compute() returned, and the file differs from its final table: {diff}", "ioerr:returned")
        return
    allowed = [min(K, k), min(K, k + 1)]
    diffs = [crashsim.describe_diff(fr["file"], ref["snaps"][kk]) for kk in allowed]
    if all(diffs):
        ctx.violate(
            "c17.file_after_write_error",
            (f"write call {j} of the run put only part of its bytes on disk ({io.get('what')}, {io['path']}) and failed with EIO" if torn else f"the disk refused the {j}-th write (ENOSPC on {io['path']})")
            + f" in stage {k + 1} of {K} and the run raised: the file left on disk is not the last completed prefix: {diffs[0]}",
            "ioerr:raised",
        )


def _fsize_case(ctx, cfg, desc, clock, ref):
    """The file system stops taking data at byte L of a file (quota / file-size limit / full
    disk): the write crossing L is cut short by the OS (a short count, no error yet), the next
    fails with EFBIG.  Whatever the run does — raise, or go on — the output file must be a
    completed prefix: the last one if it raised, its own table at every boundary it completes."""
    ch = ctx.ch
    K = ref["K"]
    full = len(ref["snaps"][K] or b"") if K else 0
    if not full:
        ctx.probes["fault_step_beyond_run"] += 1
        return
    L = 1 + (ch.draw(10**6, "fsize_limit_ppm") * (full + 2880)) // 10**6
    fr = crashsim.fault_run(cfg, desc["rng_seed"], clock, _src(), {"kind": "fsize", "limit": L, "step": None}, outname=ref["outname"], compute_kw=ref["compute_kw"])
    rep = fr["report"]
    ctx.steps += rep.get("steps", 0)
    ctx.log(f"case fsize limit={L} of {full} -> status={rep['status'][:50]} k_final={rep['k_final']} file={'absent' if fr['file'] is None else len(fr['file'])} mismatch={rep.get('boundary_mismatch')}")
    if L >= full:
        ctx.probes["fsize_limit_beyond_run"] += 1
    else:
        ctx.faults["file_size_limit_short_write_then_efbig"] += 1
        ctx.nontrivial = True
    if rep.get("boundary_mismatch"):
        kk, diff = rep["boundary_mismatch"]
        ctx.violate("c17.boundary_after_io_error", f"the file system stopped taking data at byte {L} of a file (short write, then EFBIG), the run went on, and after its stage boundary {kk} the file is not the table of the stages completed so far: {diff}", "fsize:continued")
        return
    k = rep["k_final"] or 0
    if rep["status"] == "returned":
        if L < full:
            ctx.probes["run_returned_despite_io_error"] += 1
        diff = crashsim.describe_diff(fr["file"], fr["final"])
        if diff:
            ctx.violate("c17.boundary_after_io_error", f"the file system stopped taking data at byte {L} of a file, compute() returned, and the file differs from its final table: {diff}", "fsize:returned")
        return
    allowed = [min(K, k), min(K, k + 1)]
    diffs = [crashsim.describe_diff(fr["file"], ref["snaps"][kk]) for kk in allowed]
    if all(diffs):
        ctx.violate("c17.file_after_write_error",
                    f"the file system stopped taking data at byte {L} of a file (short write, then EFBIG) in stage {k + 1} of {K} and the run raised: the file left on disk is not the last completed prefix: {diffs[0]}",
                    "fsize:raised")


def _retry_case(ctx, cfg, desc, clock, ref):
    """A staged run that fails in a stage, then — same process, same output path — a second,
    fault-free staged run (a retry loop, a scan, a notebook): the second run's file must show
    its own table at each of its boundaries."""
    from .. import core

    ch = ctx.ch
    step = 1 + ch.draw(max(1, ref["steps"]), "retry_fail_step")
    src = _src()
    seed = desc["rng_seed"]
    variant = ("same-path", "relative-name-other-directory", "after-a-kill-inside-the-writer")[ch.draw(3, "retry_variant")]
    ctx.describe["retry_variant"] = variant
    if variant == "after-a-kill-inside-the-writer":
        # run 1 is KILLED inside a staged write (what it leaves next to the output stays there);
        # run 2, another process, stages into the same directory under the same name
        import shutil
        import tempfile

        d = tempfile.mkdtemp(prefix="c17kill-")
        try:
            K = ref["K"]
            f1 = {"kind": "torn", "mode": "die", "step": None, "write_call": 1 + ch.draw(max(1, 5 * K), "kill_k"), "tear": ch.draw(14000, "kill_line") % 3, "sector": 3}
            r1 = crashsim.fault_run(cfg, seed, clock, src, f1, outname=ref["outname"], compute_kw=ref["compute_kw"], workdir=d, keep_dir=True)
            left = sorted(os.listdir(d))
            r2 = crashsim.fault_run(cfg, seed, clock, src, None, outname=ref["outname"], compute_kw=ref["compute_kw"], workdir=d, keep_dir=True, check_boundaries=True)
        finally:
            shutil.rmtree(d, ignore_errors=True)
        rep2 = r2["report"]
        ctx.steps += rep2.get("steps", 0)
        ctx.log(f"case retry/{variant} first={r1['report']['status'][:20]} left={left} second={rep2['status'][:40]} k2={rep2['k_final']} mismatch={rep2.get('boundary_mismatch')} absent={rep2.get('snap_absent')}")
        if r1["report"]["status"] == "died":
            ctx.faults["kill_then_rerun"] += 1
            ctx.nontrivial = True
        if rep2["status"] != "returned":
            ctx.violate("c17.retry_fails", f"after a staged run was killed inside a write (leaving {left}), a second staged run into the same directory raised {rep2['status']}", "retry:kill")
        elif rep2.get("snap_absent"):
            ctx.violate("c17.retry_boundary_content", f"after a staged run was killed inside a write, a second staged run into the same directory: no file after its stage boundary {rep2['snap_absent'][0]}", "retry:kill")
        elif rep2.get("boundary_mismatch"):
            ctx.violate("c17.retry_boundary_content", f"after a staged run was killed inside a write, a second staged run into the same directory: after its stage boundary {rep2['boundary_mismatch'][0]} the file is not its table: {rep2['boundary_mismatch'][1]}", "retry:kill")
        return

    def body():
        import tempfile, shutil

        d = tempfile.mkdtemp(prefix="c17retry-")
        try:
            os.mkdir(os.path.join(d, "side"))
            cwd = os.getcwd()
            if variant == "relative-name-other-directory":
                # the driver changes directory between runs and gives the same RELATIVE name to each
                dA, dB = os.path.join(d, "runA"), os.path.join(d, "runB")
                os.mkdir(dA)
                os.mkdir(dB)
                name = ref["outname"]
                out1, out2, given1, given2 = os.path.join(dA, name), os.path.join(dB, name), name, name
            else:
                dA = dB = d
                out1 = out2 = given1 = given2 = os.path.join(d, ref["outname"])
            try:
                os.chdir(dA)
                st1, _, tr1 = crashsim._compute_call(cfg, seed, clock, given1, True,
                                                     lambda box: crashsim.StageTracer(src, box, out1, fault={"kind": "raise", "step": step}), ref["compute_kw"])
                os.chdir(dB)
                st2, t2, tr2 = crashsim._compute_call(cfg, seed, clock, given2, True,
                                                      lambda box: crashsim.StageTracer(src, box, out2, snapshot=True, side_dir=os.path.join(d, "side")), ref["compute_kw"])
            finally:
                os.chdir(cwd)
            bad = None
            for kk in range(1, tr2.k + 1):
                dd = crashsim.describe_diff(tr2.snaps[kk], tr2.sides[kk]) if tr2.snaps[kk] != tr2.sides[kk] else None
                if tr2.snaps[kk] is None:
                    dd = "no file"
                if dd:
                    bad = [kk, dd]
                    break
            return {"st1": st1, "fired": tr1.fired, "st2": st2, "k2": tr2.k, "bad": bad, "steps": tr1.steps + tr2.steps}
        finally:
            shutil.rmtree(d, ignore_errors=True)

    rep = core.in_fork(body)
    ctx.steps += rep["steps"]
    ctx.log(f"case retry/{variant} fail_step={step} first={rep['st1'][:30]} fired={bool(rep['fired'])} second={rep['st2'][:30]} k2={rep['k2']} bad={rep['bad']}")
    if not rep["fired"]:
        ctx.probes["fault_step_beyond_run"] += 1
    else:
        ctx.faults["raise_then_retry"] += 1
        ctx.nontrivial = True
    if rep["st2"] != "returned":
        ctx.violate("c17.retry_fails", f"after a staged run failed at step {step}, a second staged run to the same path raised {rep['st2']}", "retry")
    elif rep["bad"]:
        ctx.violate("c17.retry_boundary_content", f"after a staged run failed at step {step}, a second staged run to the same path: after its stage boundary {rep['bad'][0]} the file is not its table of completed stages: {rep['bad'][1]}", "retry")
    elif rep["k2"] != ref["K"]:
        ctx.violate("c17.retry_boundary_content", f"second staged run completed {rep['k2']} boundaries, a solo run {ref['K']}", "retry")


def _concurrent_case(ctx, cfg, desc, clock):
    """Two or three staged runs interleaved in one process, same directory: every run's file
    must be, at each of its own stage boundaries, the table of its own stages completed so far."""
    ch = ctx.ch
    n = 2 + (ch.draw(4, "conc_n") == 3)
    cfgs = [cfg]
    for i in range(1, n):
        if ch.draw(2, "conc_same_config") == 0:
            cfgs.append(cfg.model_copy(deep=True))
        else:
            c2, d2 = draw_config(ch, max_events=24, allow_zero=False)
            cfgs.append(c2)
    res = crashsim.concurrent_runs(ctx, cfgs, desc["rng_seed"], clock, _src())
    ctx.nontrivial = res[0]["switches"] > 0
    ctx.faults["interleaved_second_run"] += 1
    ctx.probes["concurrent_context_switches"] += res[0]["switches"]
    ctx.probes["preempted_right_after_a_file_operation"] += sum(r["hot_stops"] for r in res)
    ctx.log(f"case concurrent runs={n} switches={res[0]['switches']} K={[r['K'] for r in res]} status={[r['status'][:20] for r in res]} grants={[r['grants'] for r in res]}")
    for i, r in enumerate(res):
        ctx.steps += r["steps"]
        if r["status"] != "returned":
            # a run that returns alone must return in company as well
            ctx.violate("c17.concurrent_run_fails", f"run {i} of {n} concurrent staged runs raised {r['status']}", "concurrent")
            continue
        grow = [nm for (nm, sp) in zip(r["stage_names"], r["spans"]) if sp[2]]
        for k in range(1, r["K"] + 1):
            name = grow[k - 1] if k - 1 < len(grow) else "?"
            s_, w_ = r["snaps"][k], r["sides"][k]
            if s_ is None:
                ctx.violate("c17.concurrent_boundary_content", f"run {i} of {n} concurrent staged runs: no file after its stage boundary {k} ({name})", "concurrent")
                break
            diff = crashsim.describe_diff(s_, w_)
            if diff:
                ctx.violate("c17.concurrent_boundary_content", f"run {i} of {n} concurrent staged runs: after its stage boundary {k} of {r['K']} ({name}) its file is not the table of its own completed stages: {diff}", "concurrent")
                break
        if r["K"] >= 1 and r.get("file") is not None:
            diff = crashsim.describe_diff(r["file"], r["final"])
            if diff:
                ctx.violate("c17.concurrent_boundary_content", f"run {i} of {n} concurrent staged runs: its file at the end differs from its final table: {diff}", "concurrent")


FAMILIES = {"case": scn_case}
PLAN = {"quick": [("case", 64, 4)], "thorough": [("case", 64, 4)]}  # used by selftest/digests only
BUDGET = {"quick": 400, "thorough": 3000}
NCFG = {"quick": 16, "thorough": 400}


def _enumerate_cases(seed, c, K_hint=None):
    """Config c: its choice values, then the explicit case list (boundaries exhaustively)."""
    ch0 = Chooser(seed=derive_seed(seed, "C17", "config", c))
    draw_config(ch0, max_events=40)
    ch0.draw(4 * 365 * 86400, "clock")
    ch0.draw(len(OUTNAMES), "output_name")
    if ch0.draw(8, "presentation") == 7:
        ch0.draw(len(PLOTS), "plot")
    return ch0.values()


def _config_task(args):
    """Pool task: one configuration, all of its cases — in a forked child of the warmed-up
    worker, so that no configuration can leave state behind for the next one."""
    from .. import core

    try:
        return core.in_fork(_config_task_body, args)
    except Exception:
        import traceback

        return [{"idx": args[1] * 1000, "family": "case", "harness_error": traceback.format_exc()}]


def _config_task_body(args):
    from .. import core

    seed, c, tier = args
    import faulthandler

    out = []
    try:
        cfg_vals = _enumerate_cases(seed, c)
        scn = scn_case
        idx = c * 1000
        stop = core._WORKER.get("stop")

        def run(case_vals):
            nonlocal idx
            if stop is not None and stop.is_set():
                return None
            faulthandler.dump_traceback_later(900, exit=True)
            try:
                r = core.run_and_shrink(scn, "C17", "case", idx, tier, ("values", cfg_vals + case_vals))
            finally:
                faulthandler.cancel_dump_traceback_later()
            idx += 1
            out.append(r)
            return r

        r0 = run([0])  # reference-only: runs the reference oracle once
        if r0 is None:
            return out
        K = r0["describe"].get("boundaries")
        if K is None or r0["violation"] is not None:
            return out
        ngrow = K
        rnd = Chooser(seed=derive_seed(seed, "C17", "interior", c))
        cases = []
        for k in range(K + 1):  # exhaustive over boundaries x {die, raise}
            cases.append([1, 0, k])
            cases.append([2, 0, k])
        for j in range(ngrow):  # first and last step of every growing stage
            cases.append([1 + (j % 2), 1, j, 0])
            cases.append([2 - (j % 2), 1, j, 1])
        n_int = 14 if tier == "quick" else 24
        for i in range(n_int):  # stratified interior points
            cases.append([1 + rnd.draw(2, "kind"), 2, rnd.draw(64, "stage"), rnd.draw(1000, "frac")])
        for i in range(6):
            cases.append([1 + rnd.draw(2, "kind"), 3, rnd.draw(10**6, "step")])
        for i in range(4):
            cases.append([1 + rnd.draw(2, "kind"), 4, rnd.draw(64, "fits_k"), rnd.draw(14000, "fits_line")])
        cases.append([3])
        cases.append([4])
        for j in range(K):  # the disk refuses the j-th write: exhaustive over staged writes
            cases.append([6, j])
        for i in range(8 if tier == "quick" else 24):  # torn write (half the bytes, then EIO or death) at a seeded write call
            cases.append([8, rnd.draw(5 * max(1, K), "torn_call"), rnd.draw(4, "torn_mode"), rnd.draw(3, "tear"), rnd.draw(64, "sector"), i % 2])
        for i in range(6 if tier == "quick" else 16):  # the file system stops taking data at byte L (short write, then EFBIG)
            cases.append([9, rnd.draw(10**6, "fsize_ppm")])
        for i in range(3 if tier == "quick" else 6):  # failed run, then a retry in the same process
            cases.append([7, rnd.draw(10**6, "retry_step"), i % 3, rnd.draw(64, "kill_k"), rnd.draw(14000, "kill_line")])
        for i in range(4 if tier == "quick" else 8):  # concurrent staged runs, seeded interleavings
            cases.append([5] + [rnd.draw(6, "c") for _ in range(240)])
        for cv in cases:
            if run(cv) is None:
                break
    except Exception:
        import traceback

        out.append({"idx": c * 1000, "family": "case", "harness_error": traceback.format_exc()})
    return out


def run_check(tier, seed, known):
    from .. import cli, core

    t0 = time.monotonic()
    n = max(1, int(NCFG[tier] * float(os.environ.get("VERIF_SCALE", "1"))))
    budget = float(os.environ.get("VERIF_BUDGET", BUDGET[tier]))
    tasks = [(seed, c, tier) for c in range(n)]
    results, herrs, wall = core.run_tasks("C17", tier, tasks, _config_task, budget)
    import sys

    mod = sys.modules[__name__]
    ncfg = len({r["idx"] // 1000 for r in results})
    META["extra"] = {
        "configurations": ncfg, "exhaustive": False, "boundary_cases_exhaustive_per_configuration": True,
        "seeds": {
            "verif_seed": seed,
            "derivation": "configuration c: sha256(VERIF_SEED|C17|config|c)[:8]; its seeded interior cases: sha256(VERIF_SEED|C17|interior|c)[:8]; "
                          "boundary cases are enumerated, not drawn; run_index = 1000*c + case number",
            "first_config_seed": derive_seed(seed, "C17", "config", 0),
            "last_config_seed": derive_seed(seed, "C17", "config", max(0, n - 1)),
        },
    }
    return cli.finish("C17", tier, seed, mod, results, herrs, time.monotonic() - t0, known)


META = {
    "time_key": "traced_steps",
    "rule": (
        "one run = one configuration (seeded: mode, events, spectrum, cloud, channels, detector, tables, target, RNG seed, simulated clock) "
        "+ one case: the fault-free reference with a snapshot at every stage boundary, or compute() in a forked child killed with os._exit / failed by an "
        "exception raised from the trace function at a chosen traced step, or a run with staging off, or 2-3 staged runs interleaved in one process by a "
        "seeded baton scheduler (pre-emption at repository-line granularity, biased to land right after a file operation) into the same directory. Per configuration the boundary cases are "
        "enumerated exhaustively (every boundary k=0..K x {die, raise}) plus first/last step of every stage, stratified interior steps (incl. inside dask tasks), "
        "uniform steps, and steps inside astropy.io.fits (observed only). Non-trivial: a fault actually fired, or a staging-off run, or a reference with >=1 boundary; "
        "distinct = distinct event-log digests (config, case, reported k / site, verdict)"
    ),
    "components_real": ["nuspacesim.compute and all stages", "astropy Table / FITS writer and reader", "the file system (private scratch directory per run)",
                        "dask synchronous scheduler", "numpy global RNG (seeded per configuration)", "os.fork / os._exit (process death)"],
    "components_simulated": ["wall clock (results_table.datetime replaced)", "the instant of failure (seeded traced step)", "stage failure (exception injected through sys.settrace)",
                             "thread scheduling of concurrent staged runs (baton-passed real threads; progress-bar timer thread removed)"],
    "assumptions": [
        "a stage is a call made directly from compute()'s frame; a boundary is the return of such a call after which the results table has grown",
        "crash model: process death with the kernel page cache surviving (the code never fsyncs; power loss is outside the statement)",
        "a failure inside stage k+1 may leave prefix k or k+1 (the stage's own store may already have run); between stages exactly prefix k",
        "death inside the FITS writer itself is observed and classified, not asserted (the property speaks of death between stages)",
        "I/O errors of the write itself (ENOSPC, EIO) are not injected",
        "concurrent staged runs share numpy's global generator, so their values differ from a solo run; the oracle there is only 'each run's file equals its own table at its own boundaries'",
        "configurations whose fault-free run raises are skipped (counted in probes.reference_run_raised); whether a run returns is C14's business",
    ],
}
