"""C05 — tau exit probability: faithful, bounded, history-independent (DESIGN §7)."""

from __future__ import annotations

import os
import random

import numpy as np

from .. import env, histsim
from ..core import Violation

LEVEL = "exploration"
EPS32 = float(np.finfo(np.float32).eps)
VERSIONS = ("3", "1", "2")

_TABLE = {}
_POOL = {}


def warmup(tier):
    env.load()
    for v in VERSIONS:
        _table(v)
        _pool(v, tier)


def _table(v):
    """The shipped table read directly with h5py — never through NssGrid, never mutated."""
    if v in _TABLE:
        return _TABLE[v]
    import h5py

    path = os.path.join(env.repo_src(), "nuspacesim", "data", "nupyprop_tables", f"nu2tau_pexit.{v}.h5")
    with h5py.File(path, "r") as f:
        names = [f.attrs[f"AXIS{i}"] for i in range(2)]
        names = [n.decode() if isinstance(n, bytes) else str(n) for n in names]
        axes = {n: np.array(f["__nss_grid_axes__"][n][...], dtype=np.float64) for n in names}
        data = np.array(f["__nss_grid_data__"][...], dtype=np.float64)
    if names != ["log_e_nu", "beta_rad"]:
        data = data.T
    E, B = axes["log_e_nu"], axes["beta_rad"]
    raw = data.copy()
    data = data.copy()
    data[data <= 0] = EPS32
    t = {"E": E, "B": B, "raw": raw, "P": data, "L": np.log10(data)}
    _TABLE[v] = t
    return t


def model(v, betas, log_e):
    """10**bilinear(log10 table), three angle rules.  Returns (values, lo, hi, in_range)."""
    t = _table(v)
    E, B, L = t["E"], t["B"], t["L"]
    betas = np.asarray(betas, dtype=np.float64)
    log_e = np.asarray(log_e, dtype=np.float64)
    low = betas < B[0]
    high = betas > B[-1]
    b = np.where(low, B[0], np.where(high, B[-1], betas))
    e_ok = (log_e >= E[0]) & (log_e <= E[-1])
    e = np.clip(log_e, E[0], E[-1])
    i = np.clip(np.searchsorted(E, e, side="right") - 1, 0, len(E) - 2)
    j = np.clip(np.searchsorted(B, b, side="right") - 1, 0, len(B) - 2)
    te = (e - E[i]) / (E[i + 1] - E[i])
    tb = (b - B[j]) / (B[j + 1] - B[j])
    c00, c10, c01, c11 = L[i, j], L[i + 1, j], L[i, j + 1], L[i + 1, j + 1]
    val = (1 - te) * (1 - tb) * c00 + te * (1 - tb) * c10 + (1 - te) * tb * c01 + te * tb * c11
    # the four surrounding nodes, excluding those with zero weight (a point on a grid line
    # is bounded by the nodes of that line)
    big = np.full_like(val, np.inf)
    w = [(1 - te) * (1 - tb), te * (1 - tb), (1 - te) * tb, te * tb]
    cs = [c00, c10, c01, c11]
    lo = np.minimum.reduce([np.where(wk > 0, ck, big) for wk, ck in zip(w, cs)])
    hi = np.maximum.reduce([np.where(wk > 0, ck, -big) for wk, ck in zip(w, cs)])
    out = 10.0**val
    lo, hi = 10.0**lo, 10.0**hi
    out = np.where(high, EPS32, out)
    lo = np.where(high, EPS32, lo)
    hi = np.where(high, EPS32, hi)
    return out, lo, hi, e_ok, high


def _pool(v, tier):
    seed = int(os.environ.get("VERIF_SEED", "0"))
    key = (v, tier, seed)
    if key in _POOL:
        return _POOL[key]
    t = _table(v)
    E, B = t["E"], t["B"]
    rng = random.Random(f"c05pool|{seed}|{v}")
    pts = []
    cat = []
    ee, bb = np.meshgrid(E, B, indexing="ij")
    for e, b in zip(ee.ravel(), bb.ravel()):
        pts.append((e, b))
        cat.append("node")
    em, bm = np.meshgrid((E[:-1] + E[1:]) / 2, (B[:-1] + B[1:]) / 2, indexing="ij")
    for e, b in zip(em.ravel(), bm.ravel()):
        pts.append((e, b))
        cat.append("mid")
    n_rand = 400 if tier == "quick" else 3000
    for _ in range(n_rand):
        pts.append((rng.uniform(E[0], E[-1]), rng.uniform(B[0], B[-1])))
        cat.append("interior")
    for _ in range(120):
        pts.append((rng.choice(list(E)) if rng.random() < 0.3 else rng.uniform(E[0], E[-1]), rng.uniform(0.0, B[0]) if rng.random() < 0.9 else 0.0))
        cat.append("below")
    for _ in range(120):
        pts.append((rng.uniform(E[0], E[-1]), rng.uniform(B[-1], np.pi / 2) if rng.random() < 0.9 else np.pi / 2))
        cat.append("above")
    for e in (E[0], E[-1]):
        for _ in range(20):
            pts.append((e, rng.uniform(0.0, B[-1] * 1.05)))
            cat.append("edgeE")
    for b in (B[0], B[-1], np.nextafter(B[0], 0), np.nextafter(B[-1], 9)):
        for _ in range(10):
            pts.append((rng.uniform(E[0], E[-1]), b))
            cat.append("edgeB")
    # plateau of non-positive table entries, if any: points inside such cells
    zi, zj = np.nonzero(t["raw"] <= 0)
    for a, c in list(zip(zi, zj))[:60]:
        e = E[a] if a == len(E) - 1 or rng.random() < 0.3 else rng.uniform(E[max(0, a - 1)], E[min(len(E) - 1, a + 1)])
        b = B[c] if rng.random() < 0.3 else rng.uniform(B[max(0, c - 1)], B[min(len(B) - 1, c + 1)])
        pts.append((e, b))
        cat.append("nonpositive-cell")
    P = {"E": np.array([p[0] for p in pts]), "B": np.array([p[1] for p in pts]), "cat": cat}
    P["ref"], P["lo"], P["hi"], P["e_ok"], P["high"] = model(v, P["B"], P["E"])
    P["node_val"] = np.full(len(pts), np.nan)
    k = 0
    for a in range(len(E)):
        for c in range(len(B)):
            P["node_val"][k] = t["P"][a, c]
            k += 1
    _POOL[key] = P
    return P


MONO = (None, 8.1, 6.3, 11.77, 9.0, 7.625)  # None: the default spectrum (8.0, a table node)


def _config(v, mono=None):
    from nuspacesim.config import NssConfig, Simulation

    c = NssConfig()
    c.simulation.tau_shower.table_version = v
    if mono is not None:
        c.simulation.spectrum = Simulation.MonoSpectrum(log_nu_energy=mono)
    return c


def _check_direct(ctx, v, betas, es, got, opname, opi):
    """Points that are not in the pool: value, range and bounds against the model, computed on the spot."""
    got = np.asarray(got, dtype=np.float64)
    ref, lo, hi, e_ok, high = model(v, betas, es)
    tol = np.where(high, 1e-5, 1e-9)
    bad = ~(np.abs(got - ref) <= tol * np.abs(ref))
    if got.shape != ref.shape:
        raise Violation("c05.shape", f"op {opi} {opname}: {ref.size} inputs gave output of shape {got.shape}", sig="tau_exit_prob")
    if bad.any():
        k = int(np.nonzero(bad)[0][0])
        raise Violation("c05.value", f"op {opi} {opname}: P_exit(log10E={es[k]!r}, beta={betas[k]!r}, table {v}) = {got[k]!r}, ten to the bilinear interpolation of log10(table) is {ref[k]!r}", sig="value:direct")
    if not (np.all(got > 0) and np.all(got <= 1.0)):
        raise Violation("c05.range", f"op {opi} {opname}: exit probability outside (0,1]", sig="range")


def _check_values(ctx, v, P, idx, got, memo, opname, opi):
    idx = np.asarray(idx)
    got = np.asarray(got, dtype=np.float64)
    if got.shape != idx.shape:
        raise Violation("c05.shape", f"op {opi} {opname}: {idx.size} inputs gave output of shape {got.shape}", sig="tau_exit_prob")
    ref, lo, hi = P["ref"][idx], P["lo"][idx], P["hi"][idx]
    # angles above the tabulated maximum take "the 1.19e-7 floor": the statement gives three
    # digits (the code computes 10**float32(log10(eps32)) = 1.1920917e-7, eps32 is 1.1920929e-7);
    # a wrong clamp is off by orders of magnitude
    tol = np.where(P["high"][idx], 1e-5, 1e-9)
    bad = ~(np.abs(got - ref) <= tol * np.abs(ref))
    if bad.any():
        k = int(np.nonzero(bad)[0][0])
        i = int(idx[k])
        raise Violation(
            "c05.value",
            f"op {opi} {opname}: P_exit(log10E={P['E'][i]!r}, beta={P['B'][i]!r} [{P['cat'][i]}], table {v}) = {got[k]!r}, "
            f"ten to the bilinear interpolation of log10(table) is {ref[k]!r}",
            sig=f"value:{P['cat'][i]}",
        )
    if not (np.all(got > 0) and np.all(got <= 1.0)):
        k = int(np.nonzero(~((got > 0) & (got <= 1)))[0][0])
        raise Violation("c05.range", f"op {opi} {opname}: exit probability {got[k]!r} outside (0,1]", sig="range")
    slack = np.where(P["high"][idx], 1e-5, 1e-12)
    ob = (got < lo * (1 - slack)) | (got > hi * (1 + slack))
    if ob.any():
        k = int(np.nonzero(ob)[0][0])
        raise Violation("c05.bounded", f"op {opi} {opname}: value {got[k]!r} outside the surrounding nodes' range [{lo[k]!r}, {hi[k]!r}]", sig="bounded")
    nodes = idx < len(P["node_val"])
    nodes = nodes & ~np.isnan(P["node_val"][idx])
    if nodes.any():
        nv = P["node_val"][idx][nodes]
        bn = ~(np.abs(got[nodes] - nv) <= 1e-12 * nv)
        if bn.any():
            k = int(np.nonzero(bn)[0][0])
            raise Violation("c05.node", f"op {opi} {opname}: at a table node the value is {got[nodes][k]!r}, the (floored) table entry is {nv[k]!r}", sig="node")
    # history independence: bit-identical to the first answer for the same point
    gb = got.view(np.int64)
    pairs = enumerate(idx.tolist())
    if len(idx) > 40000:  # huge batches: head and tail are enough for the per-point history model
        il = idx.tolist()
        pairs = list(enumerate(il[:10000])) + [(len(il) - 10000 + k, i) for k, i in enumerate(il[-10000:])]
    for k, i in pairs:
        m = memo.get(i)
        if m is None:
            memo[i] = (int(gb[k]), opi)
        elif m[0] != int(gb[k]):
            raise Violation(
                "c05.history",
                f"op {opi} {opname}: P_exit(log10E={P['E'][i]!r}, beta={P['B'][i]!r}) = {got[k]!r} but the same point gave {np.int64(m[0]).view(np.float64)!r} at op {m[1]}",
                sig="history",
            )


def _legal_call(opi, name, args, fn):
    """Every batch handed to fn() here is inside the table (or above the maximum angle): it must
    return.  An exception is a violation, named for what it is."""
    try:
        return fn()
    except Violation:
        raise
    except Exception as e:  # noqa: BLE001
        ro = [k for k, a in enumerate(args) if isinstance(a, np.ndarray) and not a.flags.writeable]
        if ro and "read-only" in str(e):
            raise Violation("c05.argument_modified", f"op {opi} {name}: raised {type(e).__name__}: {str(e)[:120]} — an argument was passed read-only and the call writes into it", sig="args:read-only")
        raise Violation("c05.legal_query_raises", f"op {opi} {name}: a batch of in-table queries raised {type(e).__name__}: {str(e)[:160]}", sig="raises")


def scn_history(ctx):
    from nuspacesim.simulation.taus.taus import Taus

    ch, tier = ctx.ch, ctx.tier
    v0 = VERSIONS[ch.draw(3, "table_version")]
    mono0 = MONO[ch.draw(len(MONO), "mono_energy")] if ch.draw(3, "mono_config") == 2 else None
    monos = {}

    # one history in three: ONE configuration object serves the whole session and is edited before
    # each construction (`for v in "123": cfg...table_version = v; taus[v] = Taus(cfg)`): an object
    # answers from the table it loaded, whatever the configuration says by now
    shared = [_config(v0, mono0)] if ch.draw(3, "one_shared_mutable_config") == 2 else None
    if shared:
        ctx.probes["one_shared_mutable_config"] += 1

    def cfg_for(vv, mm):
        if not shared:
            return _config(vv, mm)
        from nuspacesim.config import Simulation

        c = shared[0]
        c.simulation.tau_shower.table_version = vv
        if mm is not None:
            c.simulation.spectrum = Simulation.MonoSpectrum(log_nu_energy=mm)
        return c

    def new_obj(vv):
        # some objects are built from a configuration with a mono-energetic spectrum off the table nodes
        mm = mono0 if ch.draw(2, "obj_mono") == 0 else MONO[ch.draw(len(MONO), "obj_mono_e")]
        o = Taus(cfg_for(vv, mm))
        monos[id(o)] = mm
        return o

    # one history in three: the caller keeps preallocated work buffers and refills them in place
    # for every call (the same ndarray objects come back with other contents)
    reuse = ch.draw(3, "caller_refills_work_buffers") == 2
    bufs = {}

    def via_buf(tag, a):
        if not reuse or a.ndim != 1 or not a.flags.c_contiguous:
            return a
        key = (tag, a.shape, a.dtype.str)
        b = bufs.get(key)
        if b is None:
            b = bufs[key] = np.empty(a.shape, a.dtype)
        else:
            ctx.probes["work_buffer_refilled_in_place"] += 1
        b[...] = a
        return b

    first = Taus(cfg_for(v0, mono0))
    monos[id(first)] = mono0
    objs = [(v0, first)]
    memos = {v0: {}}
    n_ops = 4 + ch.draw(36, "n_ops")
    ctx.describe.update(table_version=v0, n_ops=n_ops, pool=len(_pool(v0, tier)["E"]))
    ctx.log(f"history table={v0} ops={n_ops}")
    kinds_seen = set()
    held = histsim.Held()
    for opi in range(n_ops):
        ch_h = held.changed()
        if ch_h is not None:
            raise Violation("c05.result_overwritten", f"the array returned by {ch_h[1]} at op {ch_h[0]} changed while the caller held it (it was overwritten by a later call, op {opi - 1})", sig="result-aliasing")
        v, obj = objs[ch.draw(len(objs), "object")]
        P = _pool(v, tier)
        m = len(P["E"])
        memo = memos[v]
        kind = ch.draw(8, "op")
        mono_e = monos.get(id(obj))
        if kind == 6 and mono_e is not None:
            # a batch entirely at the configured mono energy (what a mono-energetic run asks)
            idx = np.asarray(histsim.draw_indices(ch, m, 64))
            B = np.array(P["B"][idx])
            E = np.full(len(idx), mono_e)
            via_call = ch.draw(2, "mono_via_call") == 1
            before = histsim.digest_args((E, B))
            if via_call:
                with histsim.constant_stream():
                    got = obj(B, E)[4]
            else:
                got = obj.tau_exit_prob(B, E)
            ctx.log(f"op{opi} mono-batch E={mono_e} n={len(idx)} via={'__call__' if via_call else 'tau_exit_prob'}")
            _check_direct(ctx, v, B, E, got, f"mono-batch[E={mono_e}]", opi)
            if histsim.digest_args((E, B)) != before:
                raise Violation("c05.argument_modified", f"op {opi} mono-batch: the caller's arrays were modified", sig="args")
            ctx.probes["mono_energy_batch"] += 1
            kinds_seen.add("mono-batch")
            ctx.steps += 1
            continue
        if kind in (0, 6, 7):
            idx = histsim.draw_indices(ch, m, 96)
            name = "tau_exit_prob"
        elif kind == 4 and ch.draw(24, "huge") == 23:
            # beyond the next "natural" block sizes (2**16, 2**18, 2**20), not a multiple of them
            a = ch.draw(m, "big_a")
            sizes = (65537, 262145, 300001) + ((1048577, 2097153, 4194305) if tier == "thorough" else ())
            n = sizes[ch.draw(len(sizes), "huge_n")]
            idx = (a + np.arange(n)) % m
            name = f"tau_exit_prob[{n}]"
            ctx.probes["batch_gt_2^16"] += 1
        elif kind == 4:
            a = ch.draw(m, "big_a")
            n = 8193 + ch.draw(12000, "big_n")
            idx = [(a + k) % m for k in range(n)]
            name = "tau_exit_prob[>8192]"
            ctx.probes["batch_gt_8192"] += 1
        elif kind == 1:
            idx = histsim.draw_indices(ch, m, 64)
            name = "tau_energy"
        elif kind == 2:
            idx = histsim.draw_indices(ch, m, 64)
            name = "__call__"
        elif kind == 3:
            idx = histsim.draw_indices(ch, m, 32)
            name = "reject"
            if ch.draw(160 if tier == "quick" else 60, "huge_reject") == 7:
                # the out-of-table energy hides in a batch beyond the next block sizes (2**21, 2**22)
                n = (2**21 + 1, 2**22 + 3)[ch.draw(2, "huge_reject_n") if tier == "thorough" else 0]
                idx = (ch.draw(m, "big_a") + np.arange(n)) % m
                ctx.probes["rejected_energy_in_batch_gt_2^21"] += 1
        else:  # 5: bring another object into play: same version, or another shipped version
            nv = v0 if ch.draw(3, "other_version") == 0 else VERSIONS[ch.draw(3, "new_version")]
            cp = ch.draw(5, "copy_object")
            if cp >= 3:
                # an object is replaced by a copy of itself (deepcopy / pickle round trip)
                import copy
                import pickle

                k = ch.draw(len(objs), "copy_which")
                ov, oo = objs[k]
                try:
                    o2 = copy.deepcopy(oo) if cp == 3 else pickle.loads(pickle.dumps(oo))
                    monos[id(o2)] = monos.get(id(oo))
                    objs[k] = (ov, o2)
                    ctx.probes["object_replaced_by_" + ("deepcopy" if cp == 3 else "pickle_round_trip")] += 1
                except Exception:  # noqa: BLE001
                    ctx.probes["object_copy_failed"] += 1
                ctx.log(f"op{opi} copy-object #{k} how={cp}")
                continue
            if len(objs) < 4 and ch.draw(2, "replace_object") == 0:
                objs.append((nv, new_obj(nv)))
                ctx.log(f"op{opi} new-object table={nv} n={len(objs)}")
            else:
                # drop an object and build another in its place: whatever the old one left in
                # process-wide caches (keyed by name, by id(), ...) is now stale
                k = ch.draw(len(objs), "replace_which")
                old_v = objs[k][0]
                objs[k] = None
                objs[k] = (nv, new_obj(nv))
                ctx.probes["object_dropped_and_replaced"] += 1
                ctx.log(f"op{opi} replace-object #{k} table {old_v}->{nv}")
            memos.setdefault(nv, {})
            ctx.probes["second_object" if nv == v0 else "object_of_other_version"] += 1
            continue
        kinds_seen.add(name)
        idx = np.asarray(idx)
        if reuse and bufs and name != "reject" and len(idx) <= 4096 and ch.draw(2, "same_size_as_before"):
            sizes_used = sorted({k[1][0] for k in bufs})
            idx = np.resize(idx, sizes_used[ch.draw(len(sizes_used), "which_size")])
        E = histsim.layout(ch, P["E"][idx], "layoutE")
        B = histsim.layout(ch, P["B"][idx], "layoutB")
        if name != "reject":
            E, B = via_buf("E", E), via_buf("B", B)
        if not (E.flags.c_contiguous and B.flags.c_contiguous):
            ctx.probes["non_contiguous_argument"] += 1
        ctx.steps += 1
        if name == "reject":
            # an energy outside the table with beta <= beta_max must be rejected with an error
            pos = ch.draw(len(idx), "bad_pos")
            t = _table(v)
            bad_e = (t["E"][0] - 0.5, t["E"][-1] + 0.5, t["E"][-1] + 1e-9, t["E"][0] - 1e-9, np.nan)[ch.draw(5, "bad_e")]
            E = np.array(E, copy=True)
            B = np.array(B, copy=True)
            E[pos] = bad_e
            bk = ch.draw(4, "bad_beta")
            if bk == 1:  # the rejected energy sits on an angle below the tabulated minimum
                B[pos] = t["B"][0] * (0.0, 0.5, 0.999)[ch.draw(3, "bad_beta_low")]
                ctx.probes["rejected_energy_on_low_angle"] += 1
            elif bk == 2:
                B[pos] = t["B"][0]
            elif bk == 3:
                B[pos] = t["B"][-1]
            if B[pos] > t["B"][-1]:
                B[pos] = t["B"][-1] * 0.5  # keep out of the corner the statement leaves open
            before = histsim.digest_args((E, B))
            raised = None
            try:
                obj.tau_exit_prob(B, E)
            except Exception as e:  # noqa: BLE001
                raised = e
            ctx.log(f"op{opi} reject n={len(idx)} bad_e={bad_e!r} -> {type(raised).__name__ if raised else 'returned'}")
            ctx.probes["out_of_range_energy_batches"] += 1
            if raised is None:
                raise Violation("c05.not_rejected", f"op {opi}: log10(E)={bad_e!r} outside the table (beta={B[pos]!r} <= beta_max) was not rejected with an error", sig="reject")
            if histsim.digest_args((E, B)) != before:
                raise Violation("c05.argument_modified", f"op {opi}: a rejected call modified its arguments", sig="args")
            continue
        ok = P["e_ok"][idx] | P["high"][idx]
        if not ok.all():
            idx = idx[ok]
            E, B = np.array(P["E"][idx]), np.array(P["B"][idx])
        if len(idx) == 0:
            continue
        before = histsim.digest_args((E, B))
        if name.startswith("tau_exit_prob") and 6 <= len(idx) <= 4096 and ch.draw(10, "nd_input") == 9:
            # the same events as 2-D arrays that are not C-contiguous (a transposed mesh, Fortran order):
            # element [i, j] of the result belongs to element [i, j] of the inputs
            r = (2, 3)[ch.draw(2, "nd_rows")]
            c = len(idx) // r
            idx = idx[: r * c]
            lay = ch.draw(3, "nd_layout")
            B2 = np.array(P["B"][idx]).reshape(r, c)
            E2 = np.array(P["E"][idx]).reshape(r, c)
            if lay == 0:
                B2, E2 = np.asfortranarray(B2), np.asfortranarray(E2)
            elif lay == 1:
                B2, E2 = np.ascontiguousarray(B2.T).T, E2  # mixed layouts
            else:
                B2, E2 = np.ascontiguousarray(B2.T).T, np.asfortranarray(E2)
            before = histsim.digest_args((E2, B2))
            got2 = np.asarray(obj.tau_exit_prob(B2, E2))
            ctx.probes["two_dimensional_non_c_ordered_input"] += 1
            ctx.log(f"op{opi} {name} 2-D {r}x{c} layout={lay}")
            if got2.shape != (r, c):
                raise Violation("c05.shape", f"op {opi}: inputs of shape {(r, c)} gave output of shape {got2.shape}", sig="tau_exit_prob:nd")
            _check_values(ctx, v, P, idx, got2.reshape(-1), memo, name + "[2-D]", opi)
            E, B = E2, B2
        elif name.startswith("tau_exit_prob"):
            got = _legal_call(opi, name, (B, E), lambda: obj.tau_exit_prob(B, E))
            ctx.log(f"op{opi} {name} n={len(idx)} first={int(idx[0])} cats={sorted(set(P['cat'][i] for i in idx[:50].tolist()))}")
            _check_values(ctx, v, P, idx, got, memo, name, opi)
            held.hold(opi, name, [got])
        elif name == "tau_energy":
            with histsim.constant_stream():
                _legal_call(opi, name, (B, E), lambda: obj.tau_energy(B, E))
            ctx.log(f"op{opi} tau_energy (disturbance) n={len(idx)}")
        else:
            pl = None
            if len(idx) <= 64 and ch.draw(12, "plot") == 11:
                # the stage's optional plot hooks (non-interactive backend): a plot must not touch results
                pl = ("taus_pexit", "taus_density_beta", "taus_histogram", "taus_overview")[ch.draw(4, "plot_name") if tier == "thorough" else ch.draw(3, "plot_name")]
                ctx.probes["call_with_plot_hook"] += 1
            with histsim.constant_stream():
                if pl:
                    import matplotlib.pyplot as plt

                    try:
                        out = obj(B, E, plot=pl)
                    except Exception:  # noqa: BLE001
                        # the plot code's own trouble with this batch (NaN ranges for out-of-table
                        # angles, say) is not this property's business
                        ctx.probes["plot_hook_raised"] += 1
                        pl = None
                        E, B = np.array(P["E"][idx]), np.array(P["B"][idx])
                        before = histsim.digest_args((E, B))
                        out = obj(B, E)
                    finally:
                        plt.close("all")
                else:
                    out = _legal_call(opi, name, (B, E), lambda: obj(B, E))
            ctx.log(f"op{opi} __call__ n={len(idx)} plot={pl}")
            _check_values(ctx, v, P, idx, out[4], memo, f"__call__[tauExitProb{', plot=' + pl if pl else ''}]", opi)
        if histsim.digest_args((E, B)) != before:
            raise Violation("c05.argument_modified", f"op {opi} {name}: the caller's arrays were modified", sig="args")
    # a fresh object — and the first one — answer everything asked so far identically
    total = 0
    cats = set()
    for v, memo in memos.items():
        P = _pool(v, tier)
        asked = np.array(sorted(memo), dtype=np.int64)
        total += asked.size
        if asked.size:
            got = Taus(_config(v)).tau_exit_prob(np.array(P["B"][asked]), np.array(P["E"][asked]))
            _check_values(ctx, v, P, asked, got, memo, f"fresh-object[table {v}]", n_ops)
            first = next((o for (vv, o) in objs if vv == v), None)
            if first is not None:
                got = first.tau_exit_prob(np.array(P["B"][asked]), np.array(P["E"][asked]))
                _check_values(ctx, v, P, asked, got, memo, f"first-object-at-end[table {v}]", n_ops)
            cats |= set(P["cat"][i] for i in asked.tolist())
    ctx.log(f"end asked={total} kinds={sorted(kinds_seen)} tables={sorted(memos)}")
    asked = np.zeros(total)
    for c in cats:
        ctx.probes["cat_" + c] += 1
    ctx.nontrivial = len(kinds_seen) >= 2 and asked.size >= 2


def scn_nodes(ctx):
    """Every table node, every cell midpoint and the whole pool in one history per version,
    split into seeded chunks and orders (thorough: exhaustive over nodes)."""
    from nuspacesim.simulation.taus.taus import Taus

    ch, tier = ctx.ch, ctx.tier
    v = VERSIONS[ch.draw(3, "table_version")]
    P = _pool(v, tier)
    m = len(P["E"])
    obj = Taus(_config(v))
    memo = {}
    ok = np.nonzero(P["e_ok"] | P["high"])[0]
    order = ok.copy()
    style = ch.draw(3, "order")
    if style == 1:
        order = order[::-1]
    elif style == 2:
        rot = ch.draw(len(order), "rot")
        order = np.roll(order, rot)
    chunk = (len(order), 1000, 97, 8192, 13)[ch.draw(5, "chunk")]
    ctx.log(f"nodes table={v} order={style} chunk={chunk} points={len(order)}")
    ctx.describe.update(table_version=v, order=style, chunk=chunk, points=int(len(order)))
    for opi, s in enumerate(range(0, len(order), chunk)):
        idx = order[s : s + chunk]
        got = obj.tau_exit_prob(np.array(P["B"][idx]), np.array(P["E"][idx]))
        _check_values(ctx, v, P, idx, got, memo, "tau_exit_prob[sweep]", opi)
        ctx.steps += 1
    # second pass in another chunking: history independence over the whole pool
    got = obj.tau_exit_prob(np.array(P["B"][ok]), np.array(P["E"][ok]))
    _check_values(ctx, v, P, ok, got, memo, "tau_exit_prob[second sweep]", 10**6)
    ctx.probes["all_nodes_swept"] += 1
    ctx.nontrivial = True


def scn_concurrent(ctx):
    """Two or three callers share one FRESH Taus object and ask at the same time: each in a real
    thread that runs only while it holds the baton, pre-empted at repository-line granularity by
    the seeded scheduler.  Every answer must be the model's, whatever the other callers are in
    the middle of (an object that builds something lazily on first use is shared before it is ready)."""
    from nuspacesim.simulation.taus.taus import Taus

    from ..schedsim import run_interleaved

    ch, tier = ctx.ch, ctx.tier
    v = ("1", "3", "2", "1")[ch.draw(4, "table_version")]  # version 1 has the non-positive entries
    P = _pool(v, tier)
    m = len(P["E"])
    obj = Taus(_config(v))
    ncall = 2 + (ch.draw(3, "callers") == 2)
    batches = []
    for k in range(ncall):
        idx = np.asarray(histsim.draw_indices(ch, m, 48))
        ok = P["e_ok"][idx] | P["high"][idx]
        idx = idx[ok]
        if len(idx) == 0:
            idx = np.asarray([0])
        batches.append(idx)
    args = [(np.array(P["B"][i]), np.array(P["E"][i])) for i in batches]
    second_round = ch.draw(2, "second_round") == 1
    # a call is ~15 repository lines: quanta of 1..50 lines, or ("targeted") long quanta that end
    # right after a line that stores to an attribute or a global (found by a static scan)
    policy = ("targeted", "fine", "targeted", "mixed")[ch.draw(4, "quanta")]
    ctx.log(f"concurrent table={v} callers={ncall} sizes={[len(b) for b in batches]} quanta={policy}")
    ctx.describe.update(table_version=v, callers=ncall, quanta=policy)

    def caller(k):
        def go():
            r1 = obj.tau_exit_prob(*args[k])
            r2 = obj.tau_exit_prob(*args[k]) if second_round else None
            return r1, r2
        return go

    res, switches = run_interleaved(ctx, env.repo_src(), [caller(k) for k in range(ncall)], policy)
    ctx.probes["concurrent_callers_context_switches"] += switches
    ctx.nontrivial = switches > 0
    ctx.log(f"switches={switches} outcomes={['exc:' + type(e).__name__ if e else 'ok' for _, e in res]}")
    for k, (r, e) in enumerate(res):
        if e is not None:
            raise Violation("c05.concurrent_caller_fails", f"caller {k} of {ncall} sharing one Taus object raised {type(e).__name__}: {str(e)[:160]} (alone, the same call returns)", sig="concurrent")
        memo = {}
        _check_values(ctx, v, P, batches[k], r[0], memo, f"tau_exit_prob[caller {k} of {ncall} concurrent]", k)
        if r[1] is not None:
            _check_values(ctx, v, P, batches[k], r[1], memo, f"tau_exit_prob[caller {k}, second call]", k)
    ctx.steps += ncall


FAMILIES = {"history": scn_history, "nodes": scn_nodes, "concurrent": scn_concurrent}
PLAN = {"quick": [("history", 6000, 50), ("nodes", 90, 3), ("concurrent", 600, 20)], "thorough": [("history", 300000, 200), ("nodes", 1500, 10), ("concurrent", 30000, 100)]}
BUDGET = {"quick": 150, "thorough": 1500}

META = {
    "time_key": "operations",
    "rule": (
        "one run = one seeded history of 4..40 operations on one or more long-lived Taus objects of one shipped table version: tau_exit_prob on "
        "sub-batches (single events, slices, permutations, repeats, > 8192 elements, strided/offset argument views) of a pool made of all table nodes, all cell "
        "midpoints, random interior points, angles below the minimum and above the maximum, the table's energy edges and cells with non-positive entries; "
        "tau_energy and __call__ as disturbances; batches with an out-of-table energy that must be rejected; extra objects of the same version; every answer is "
        "compared with an independent model (h5py read + hand-written bilinear interpolation of log10) and, bit for bit, with the first answer for the same point. "
        "Family 'nodes' sweeps every node and midpoint of a version in seeded chunkings. Non-trivial: >= 2 operation kinds and >= 2 distinct points asked; "
        "distinct = distinct event-log digests"
    ),
    "components_real": ["nuspacesim.simulation.taus.Taus (tau_exit_prob, tau_energy, __call__)", "NssGrid hdf5 reader", "scipy RegularGridInterpolator", "the shipped nu2tau_pexit tables 1,2,3"],
    "components_simulated": ["np.random.uniform during disturbance operations (constant stream)", "the reference model: h5py + hand-written bilinear interpolation (never shares code or state with the object under test)"],
    "assumptions": [
        "no fault kind applies to this property; what is explored is the order, composition and repetition of calls (the property's history quantifier)",
        "tolerance 1e-9 relative between model and code (measured agreement ~4e-15); history independence is demanded bit for bit",
        "corner left open: energy outside the table AND beta above the table maximum (the statement's two rules contradict each other there) is never asked",
    ],
}
