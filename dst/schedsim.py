"""Engine A — simulated dask executor (DESIGN §4).

`SimWorld` owns: a virtual clock, a discrete-event queue, a simulated worker pool handed
to dask's *real* `dask.threaded.get` / `dask.multiprocessing.get` (and through them the
real `dask.local.get_async`), the replacement of `dask.local.queue_get`, baton-passed
real threads pre-empted on `sys.settrace` line events, the progress-bar timer, and the
faults (poisoned event is the workload's business; here: worker death, allocation failure
at a traced line, stragglers).

Every decision comes from `ctx.ch.draw`; every decision is logged with `ctx.log`.
"""

from __future__ import annotations

import dis
import heapq
import os
import sys
import threading
from concurrent.futures import Future
from concurrent.futures.process import BrokenProcessPool
from contextlib import contextmanager

from .core import HarnessError

MODES = ("thread-atomic", "interleaved", "process", "free-order")
QUANTA = (10**9, 1000, 200, 50, 10, 3, 1)
BATON_TIMEOUT = 60.0


class InjectedAllocFault(MemoryError):
    pass


class _NullOut:
    def write(self, s):
        return len(s)

    def flush(self):
        pass

    def isatty(self):
        return False


def _norm_key(key):
    """dask keys contain tokenize() hashes; keep (layer name without hash, index)."""
    if isinstance(key, tuple):
        return "(" + ",".join(_norm_key(k) for k in key) + ")"
    if isinstance(key, str):
        parts = key.split("-")
        if len(parts) > 1 and len(parts[-1]) >= 16 and all(c in "0123456789abcdef" for c in parts[-1]):
            parts = parts[:-1]
        return "-".join(parts)
    return repr(key)


# ------------------------------------------------------------------ static scan of shared writes

_HOT_CACHE = {}


def hot_lines(src_dir):
    """Lines of repo code (under eas_optical/ and atmosphere/) that store to an attribute,
    a global or a subscript of an attribute/global: candidate writes to state shared between
    workers.  Used only to *bias* pre-emption; soundness never depends on it."""
    if src_dir in _HOT_CACHE:
        return _HOT_CACHE[src_dir]
    out = {}
    files = []
    for root, dirs, names in os.walk(os.path.join(src_dir, "nuspacesim")):
        dirs.sort()
        if os.sep + "data" in root or os.sep + "apps" in root:
            continue
        files += [os.path.join(root, f) for f in sorted(names) if f.endswith(".py")]
    for path in files:
        try:
            code = compile(open(path).read(), path, "exec")
        except Exception:
            continue
        lines = set()
        stack = [code]
        while stack:
            co = stack.pop()
            for c in co.co_consts:
                if hasattr(c, "co_code"):
                    stack.append(c)
            if co.co_name in ("__init__", "<module>") or co.co_name.startswith("<"):
                if co.co_name != "<lambda>":
                    continue
            for ins in dis.get_instructions(co):
                if ins.opname in ("STORE_ATTR", "STORE_GLOBAL", "DELETE_ATTR"):
                    if ins.positions and ins.positions.lineno:
                        lines.add(ins.positions.lineno)
        out[os.path.realpath(path)] = lines
    _HOT_CACHE[src_dir] = out
    return out


# ------------------------------------------------------------------ jobs


class _Job:
    __slots__ = (
        "seq", "fn", "args", "kwargs", "future", "worker", "thread", "sem_go", "sem_back",
        "done", "result", "exc", "lines", "budget", "stop_hot", "fault_at", "label", "started",
        "switches", "last_hot", "dead",
    )

    def __init__(self, seq, fn, args, kwargs, label):
        self.seq = seq
        self.fn, self.args, self.kwargs = fn, args, kwargs
        self.future = Future()
        self.worker = None
        self.thread = None
        self.sem_go = threading.Semaphore(0)
        self.sem_back = threading.Semaphore(0)
        self.done = False
        self.result = None
        self.exc = None
        self.lines = 0
        self.budget = 0
        self.stop_hot = False
        self.fault_at = None
        self.label = label
        self.started = False
        self.switches = 0
        self.last_hot = False
        self.dead = False


class SimPool:
    """What dask sees as the executor."""

    def __init__(self, world, n):
        self._max_workers = n
        self._world = world

    def submit(self, fn, *args, **kwargs):
        return self._world._submit(fn, args, kwargs)

    def shutdown(self, *a, **k):
        pass


class SimWorld:
    def __init__(self, ctx, src_dir, *, mode, workers, chunksize, cfg):
        self.ctx = ctx
        self.ch = ctx.ch
        self.mode = mode
        self.workers = workers
        self.chunksize = chunksize
        self.cfg = cfg  # dict: stragglers(set), quantum_policy, fault (None|dict), tick(bool)
        self.src_prefix = os.path.realpath(os.path.join(src_dir, "nuspacesim")) + os.sep
        self.hot = hot_lines(src_dir) if cfg.get("quantum_policy") == "targeted" else {}
        self.now = 0.0
        self._seq = 0
        self._events = []  # heap of (time, seq, kind, payload)
        self._jobs = []  # all in-flight jobs (assigned or backlog)
        self._backlog = []
        self._free = list(range(workers))
        self._dead_workers = set()
        self._job_seq = 0
        self._bars = []
        self._exec_order = []
        self._submit_order = []
        self.fired = []  # faults that actually fired
        self.context_switches = 0
        self.preempt_after_hot = 0
        self.n_gets = 0
        self.bypassed = False
        self._rng_states = {}
        self._in_get = False
        self._last_granted = None
        self.total_lines = 0
        f = cfg.get("fault")
        self.alloc_line = f["line"] if f and f["kind"] == "alloc" else None
        self.kill_step = f["step"] if f and f["kind"] == "kill" else None
        self.n_steps = 0

    # ---------------------------------------------------------------- event queue
    def _push(self, t, kind, payload=None):
        self._seq += 1
        heapq.heappush(self._events, (t, self._seq, kind, payload))

    # ---------------------------------------------------------------- the scheduler callable
    def get(self, dsk, keys, **kwargs):
        """dask.config scheduler=callable lands here for every compute()."""
        import dask.local
        import dask.multiprocessing
        import dask.threaded

        if self._in_get:
            raise HarnessError("nested compute() inside a simulated compute()")
        self._in_get = True
        self.n_gets += 1
        self.ctx.log(f"get mode={self.mode} workers={self.workers} chunksize={self.chunksize}")
        for k in ("num_workers", "pool", "chunksize", "scheduler"):
            kwargs.pop(k, None)
        pool = SimPool(self, self.workers)
        try:
            if self.mode == "free-order":
                return self._free_order(dsk, keys)
            if self.mode == "process":
                return dask.multiprocessing.get(
                    dsk, keys, pool=pool, chunksize=self.chunksize, **kwargs
                )
            return dask.threaded.get(dsk, keys, pool=pool, chunksize=self.chunksize, **kwargs)
        finally:
            self._in_get = False
            self._drain()

    # ---------------------------------------------------------------- submit
    def _submit(self, fn, args, kwargs):
        self._job_seq += 1
        label = self._label(args)
        job = _Job(self._job_seq, fn, args, kwargs, label)
        self._submit_order.append(label)
        self.ctx.log(f"submit j{job.seq} {label}")
        self._jobs.append(job)
        self._assign(job)
        return job.future

    def _label(self, args):
        try:
            it = args[-1]
            return "+".join(_norm_key(a[0]) for a in it)
        except Exception:
            return "?"

    def _assign(self, job):
        live = [w for w in self._free if w not in self._dead_workers]
        if not live:
            if len(self._dead_workers) >= self.workers:
                # every worker is dead: a real pool is broken
                self._fail_job(job, BrokenProcessPool("all simulated workers died"))
                return
            self._backlog.append(job)
            return
        w = live[self.ch.draw(len(live), "worker")] if self.cfg.get("random_worker") else live[0]
        self._free.remove(w)
        job.worker = w
        self._start(job)

    def _start(self, job):
        job.started = True
        slow = 50.0 if job.worker in self.cfg.get("stragglers", ()) else 1.0
        f = self.cfg.get("fault")
        if f and f["kind"] == "alloc" and not self.fired:
            job.fault_at = -1  # traced: the fault fires at the L-th traced line of the batch
        if self.mode == "interleaved":
            job.thread = threading.Thread(target=self._thread_body, args=(job,), daemon=True)
            job.thread.start()
            if not job.sem_back.acquire(timeout=BATON_TIMEOUT):
                raise HarnessError("job thread did not park at start")
            self.ctx.log(f"start j{job.seq} w{job.worker}")
        else:
            cost = (1 + self.ch.draw(self.cfg.get("cost_spread", 1), "cost")) * slow
            self._push(self.now + cost * 0.01, "complete", job)
            self.ctx.log(f"start j{job.seq} w{job.worker} cost={cost:g}")

    # ---------------------------------------------------------------- running a job's real code
    def _run_inline(self, job):
        """atomic modes: the job's real code runs at its completion event."""
        self._exec_order.append(job.label)
        rng_swapped = False
        if self.mode == "process":
            rng_swapped = self._swap_rng_in(job.worker)
        try:
            if job.fault_at is not None:
                job.result = self._run_traced_inline(job)
            else:
                job.result = job.fn(*job.args, **job.kwargs)
        except BaseException as e:  # dask's execute_task already catches BaseException
            job.exc = e
        finally:
            if rng_swapped:
                self._swap_rng_out(job.worker)
        job.done = True

    def _run_traced_inline(self, job):
        prefix = self.src_prefix
        world = self

        def local(frame, event, arg):
            if event == "line":
                job.lines += 1
                world.total_lines += 1
                if world.alloc_line is not None and world.total_lines == world.alloc_line:
                    world.alloc_line = None
                    world.fired.append("alloc")
                    world.ctx.log(f"fault alloc j{job.seq} line={job.lines} at={os.path.basename(frame.f_code.co_filename)}:{frame.f_lineno}")
                    raise InjectedAllocFault("injected allocation failure")
            return local

        def glob(frame, event, arg):
            if frame.f_code.co_filename.startswith(prefix):
                return local
            return None

        old = sys.gettrace()
        sys.settrace(glob)
        try:
            return job.fn(*job.args, **job.kwargs)
        finally:
            sys.settrace(old)

    def _thread_body(self, job):
        prefix = self.src_prefix
        world = self
        hot = self.hot

        def park():
            job.sem_back.release()
            job.sem_go.acquire()

        def local(frame, event, arg):
            if event == "line":
                job.lines += 1
                world.total_lines += 1
                if world.alloc_line is not None and world.total_lines == world.alloc_line:
                    world.alloc_line = None
                    world.fired.append("alloc")
                    world.ctx.log(f"fault alloc j{job.seq} line={job.lines} at={os.path.basename(frame.f_code.co_filename)}:{frame.f_lineno}")
                    raise InjectedAllocFault("injected allocation failure")
                was_hot = job.last_hot
                if hot:
                    hl = hot.get(frame.f_code.co_filename)
                    job.last_hot = bool(hl and frame.f_lineno in hl)
                job.budget -= 1
                if job.budget <= 0 or (job.stop_hot and was_hot):
                    if job.stop_hot and was_hot:
                        world.preempt_after_hot += 1
                    park()
            return local

        def glob(frame, event, arg):
            if frame.f_code.co_filename.startswith(prefix):
                return local
            return None

        # park before doing anything
        job.sem_back.release()
        job.sem_go.acquire()
        if job.dead:
            job.done = True
            job.sem_back.release()
            return
        sys.settrace(glob)
        try:
            job.result = job.fn(*job.args, **job.kwargs)
        except BaseException as e:
            job.exc = e
        finally:
            sys.settrace(None)
            job.done = True
            job.sem_back.release()

    def _grant(self, job, budget, stop_hot):
        job.budget = budget
        job.stop_hot = stop_hot
        if self._last_granted is not None and self._last_granted is not job and not self._last_granted.done:
            self.context_switches += 1
        self._last_granted = job
        if job.lines == 0 and job.label not in self._exec_order:
            self._exec_order.append(job.label)
        job.sem_go.release()
        if not job.sem_back.acquire(timeout=BATON_TIMEOUT):
            raise HarnessError(f"baton not returned by j{job.seq} within {BATON_TIMEOUT}s")

    # ---------------------------------------------------------------- finishing
    def _finish(self, job):
        self._jobs.remove(job)
        if job.worker is not None and job.worker not in self._dead_workers:
            self._free.append(job.worker)
            self._free.sort()
        self.ctx.log(f"finish j{job.seq} {'exc=' + type(job.exc).__name__ if job.exc else 'ok'} lines={job.lines}")
        if self._in_get or True:
            if job.exc is not None:
                job.future.set_exception(job.exc)
            else:
                job.future.set_result(job.result)
        while self._backlog and any(w not in self._dead_workers for w in self._free):
            self._assign(self._backlog.pop(0))

    def _fail_job(self, job, exc):
        if job in self._jobs:
            self._jobs.remove(job)
        job.done = True
        job.exc = exc
        self.ctx.log(f"finish j{job.seq} exc={type(exc).__name__} (worker death)")
        job.future.set_exception(exc)

    # ---------------------------------------------------------------- one simulator step
    def step(self):
        self.n_steps += 1
        if self.kill_step is not None and self.n_steps >= self.kill_step:
            busy = sorted({j.worker for j in self._jobs if j.started and not j.done and j.worker is not None})
            if busy:
                self.kill_step = None
                self._kill(busy[self.ch.draw(len(busy), "kill_worker")])
                return
        if self.mode == "interleaved":
            runnable = [j for j in self._jobs if j.started and not j.done]
            if runnable:
                # due timer events first (ticks)
                while self._events and self._events[0][0] <= self.now:
                    self._pop_event()
                runnable = [j for j in self._jobs if j.started and not j.done]
                if not runnable:
                    return
                job = runnable[self.ch.draw(len(runnable), "grant")]
                budget, stop_hot = self._draw_quantum()
                before = job.lines
                self._grant(job, budget, stop_hot)
                ran = job.lines - before
                self.now += ran * 1e-4
                self.ctx.log(f"grant j{job.seq} q={budget if budget < 10**9 else 'inf'} ran={ran}{' done' if job.done else ''}")
                if job.done:
                    self._finish(job)
                return
        if not self._events:
            raise HarnessError("simulated scheduler deadlock: dask waits but nothing is in flight")
        self._pop_event()

    def _draw_quantum(self):
        pol = self.cfg.get("quantum_policy", "none")
        if pol == "none":
            return 10**9, False
        if pol == "coarse":
            return (10**9, 1000, 200)[self.ch.draw(3, "quantum")], False
        if pol == "fine":
            return (50, 10, 3, 1)[self.ch.draw(4, "quantum")], False
        if pol == "targeted":
            q = (10**9, 1000, 200, 50)[self.ch.draw(4, "quantum")]
            return q, self.ch.draw(2, "stop_hot") == 1
        return QUANTA[self.ch.draw(len(QUANTA), "quantum")], False

    def _pop_event(self):
        t, _, kind, payload = heapq.heappop(self._events)
        if t > self.now:
            self.now = t
        if kind == "complete":
            job = payload
            if job.done or job not in self._jobs:
                return
            self._run_inline(job)
            self._finish(job)
        elif kind == "tick":
            bar = payload
            if bar in self._bars and bar._running:
                elapsed = self.now - bar._start_time
                if elapsed > bar._minimum:
                    bar._update_bar(elapsed)
                self.ctx.probes["progress_ticks"] += 1
                self._push(self.now + bar._dt, "tick", bar)
        else:  # pragma: no cover
            raise HarnessError(f"unknown event kind {kind}")

    def _kill(self, w):
        if True:
            self._dead_workers.add(w)
            victims = [j for j in self._jobs if j.worker == w and j.started and not j.done]
            self.ctx.log(f"kill w{w} t={self.now:.3f} victims={[j.seq for j in victims]}")
            if victims:
                self.fired.append("kill")
                # a real ProcessPoolExecutor marks itself broken: every pending future fails
                for j in list(self._jobs) + list(self._backlog):
                    if not j.done:
                        self._fail_job(j, BrokenProcessPool("simulated worker died"))
                self._backlog.clear()
            if w in self._free:
                self._free.remove(w)

    def _queue_get(self, q):
        n = 0
        while q.empty():
            self.step()
            n += 1
            if n > 5_000_000:
                raise HarnessError("step cap exceeded in queue_get")
        return q.get()

    def _drain(self):
        """After a get() returns or raises, jobs still in flight finish as they would in a
        real pool (nobody waits for them); results are discarded."""
        for job in list(self._jobs):
            if job.done:
                continue
            if self.mode == "interleaved" and job.started:
                while not job.done:
                    self._grant(job, 10**9, False)
                self.ctx.log(f"drain j{job.seq}")
            # atomic modes: a job that never reached its completion event simply never ran
            # to completion from the caller's point of view; run it so that side effects on
            # shared state happen as they would in a real thread pool
            elif self.mode == "thread-atomic" and job.started:
                self._run_inline(job)
                self.ctx.log(f"drain j{job.seq}")
        self._jobs.clear()
        self._backlog.clear()
        self._events = [e for e in self._events if e[2] == "tick"]
        heapq.heapify(self._events)
        self._free = [w for w in range(self.workers) if w not in self._dead_workers]

    # ---------------------------------------------------------------- free-order executor
    def _free_order(self, dsk, keys):
        from dask._task_spec import Alias, DataNode, Task, convert_legacy_graph
        from dask.core import flatten

        g = dsk.__dask_graph__() if hasattr(dsk, "__dask_graph__") else dsk
        g = convert_legacy_graph(dict(g))
        cache = {}
        remaining = dict(g)
        order = []
        while remaining:
            ready = sorted(
                (k for k, t in remaining.items() if all(d in cache for d in t.dependencies)),
                key=_norm_key,
            )
            if not ready:
                raise HarnessError("free-order: cycle or missing dependency")
            k = ready[self.ch.draw(len(ready), "free-pick")]
            t = remaining.pop(k)
            order.append(_norm_key(k))
            self.ctx.log(f"exec {_norm_key(k)}")
            cache[k] = t({d: cache[d] for d in t.dependencies})
        self._exec_order += order
        self._submit_order += sorted(order)

        def build(ks):
            if isinstance(ks, list):
                return [build(k) for k in ks]
            return cache[ks]

        return build(keys)

    # ---------------------------------------------------------------- per-worker RNG (process mode)
    def _swap_rng_in(self, w):
        import numpy as np

        self._saved_rng = np.random.get_state()
        st = self._rng_states.get(w)
        if st is None:
            # a spawned worker seeds itself from the OS; here: a fixed function of the worker id
            np.random.seed(0xD15EA5E + w)
        else:
            np.random.set_state(st)
        return True

    def _swap_rng_out(self, w):
        import numpy as np

        self._rng_states[w] = np.random.get_state()
        np.random.set_state(self._saved_rng)

    # ---------------------------------------------------------------- activation
    @contextmanager
    def active(self, partition_knob=None):
        """Install every seam for the duration of the block."""
        import dask
        import dask.bag
        import dask.base
        import dask.diagnostics.progress as prog
        import dask.local

        world = self
        saved = {
            "queue_get": dask.local.queue_get,
            "named": dict(dask.base.named_schedulers),
            "pb_start": prog.ProgressBar._start,
            "pb_finish": prog.ProgressBar._finish,
            "timer": prog.default_timer,
            "stdout": sys.stdout,
            "from_sequence": dask.bag.from_sequence,
        }

        def pb_start(bar, dsk):
            bar._state = None
            bar._start_time = world.now
            bar._running = True
            if world.cfg.get("tick", True):
                world._bars.append(bar)
                world._push(world.now + bar._dt, "tick", bar)

        def pb_finish(bar, dsk, state, errored):
            bar._running = False
            if bar in world._bars:
                world._bars.remove(bar)
            elapsed = world.now - bar._start_time
            bar.last_duration = elapsed
            if elapsed < bar._minimum:
                return
            if not errored:
                bar._draw_bar(1, elapsed)
            else:
                bar._update_bar(elapsed)
            if bar._file is not None:
                bar._file.write("\n")
                bar._file.flush()

        real_from_sequence = saved["from_sequence"]

        def from_sequence(seq, partition_size=None, npartitions=None):
            if partition_knob is not None:
                world.ctx.log(f"partition_size {partition_size}->{partition_knob}")
                return real_from_sequence(seq, partition_size=partition_knob)
            return real_from_sequence(seq, partition_size=partition_size, npartitions=npartitions)

        dask.local.queue_get = self._queue_get
        for k in list(dask.base.named_schedulers):
            dask.base.named_schedulers[k] = self.get
        prog.ProgressBar._start = pb_start
        prog.ProgressBar._finish = pb_finish
        prog.default_timer = lambda: world.now
        dask.bag.from_sequence = from_sequence
        sys.stdout = _NullOut()
        # the worker count is a knob the *user* turns through dask's configuration, and the
        # machine size is what os.cpu_count() says: code that reads either must see the
        # simulated values (seeded change C10-2 sized its partition ordering from them)
        saved_cpu = (os.cpu_count, getattr(os, "process_cpu_count", None))
        conf = {"scheduler": self.get}
        if self.cfg.get("publish_workers", True):
            conf["num_workers"] = self.workers
        else:
            os.cpu_count = lambda: world.workers
            if saved_cpu[1] is not None:
                os.process_cpu_count = lambda: world.workers
        try:
            with dask.config.set(conf):
                yield self
        finally:
            os.cpu_count = saved_cpu[0]
            if saved_cpu[1] is not None:
                os.process_cpu_count = saved_cpu[1]
            sys.stdout = saved["stdout"]
            dask.local.queue_get = saved["queue_get"]
            dask.base.named_schedulers.clear()
            dask.base.named_schedulers.update(saved["named"])
            prog.ProgressBar._start = saved["pb_start"]
            prog.ProgressBar._finish = saved["pb_finish"]
            prog.default_timer = saved["timer"]
            dask.bag.from_sequence = saved["from_sequence"]
            self.ctx.sim_time += self.now

    # ---------------------------------------------------------------- reporting helpers
    def reordered(self):
        """True when execution order differs from submission order."""
        return self._exec_order != self._submit_order[: len(self._exec_order)]


# ------------------------------------------------------------------ drawing a world


def draw_world(ctx, src_dir, *, allow_faults, n_items, modes=MODES, force_mode=None):
    """Swarm-style: every run draws its own mode, sizes, knobs and (optionally) one fault."""
    ch = ctx.ch
    mode = force_mode or modes[ch.draw(len(modes), "mode")]
    workers = 1 + ch.draw(16, "workers")
    # chunksize=-1 is not explored: dask 2026.8 itself divides by zero in fire_tasks when no
    # task is ready (reproduced with the real threaded scheduler) — dask's defect, not the repo's
    chunksize = (1, 2, 3, 6)[ch.draw(4, "chunksize")]
    cfg = {"tick": True}
    cfg["cost_spread"] = (1, 4, 40)[ch.draw(3, "cost_spread")]
    cfg["random_worker"] = ch.draw(2, "random_worker") == 1
    cfg["publish_workers"] = ch.draw(3, "publish_workers") != 2  # 2: num_workers unset, cpu_count simulated
    ns = ch.draw(3, "n_stragglers")
    cfg["stragglers"] = set()
    for _ in range(min(ns, workers - 1)):
        cfg["stragglers"].add(ch.draw(workers, "straggler"))
    if mode == "interleaved":
        cfg["quantum_policy"] = ("coarse", "fine", "mixed", "targeted")[ch.draw(4, "quantum_policy")]
        # pre-emption needs >= 2 jobs in flight: dask batches `chunksize` tasks into one job
        if ch.draw(4, "il_keep_chunksize") != 3:
            chunksize = 1
        workers = max(2, workers)
    fault = None
    if allow_faults:
        kind = ("none", "alloc", "kill")[ch.draw(3, "sched_fault")]
        if kind == "alloc":
            if mode == "free-order":
                mode = "thread-atomic"
            fault = {"kind": "alloc", "line": 1 + ch.draw(max(1, min(8, n_items)) * 200, "fault_line")}
        elif kind == "kill":
            mode = "process"
            fault = {"kind": "kill", "step": 1 + ch.draw(8, "kill_step")}
    cfg["fault"] = fault
    world = SimWorld(ctx, src_dir, mode=mode, workers=workers, chunksize=chunksize, cfg=cfg)
    return world


# ------------------------------------------------------------------ plain concurrent callers


def run_interleaved(ctx, src_dir, fns, quantum_policy="targeted"):
    """Run the callables `fns` as concurrent callers: each in a real thread that executes only
    while it holds the baton, pre-empted at repository-line granularity by the seeded scheduler.
    Returns [(result, exception)] in the order of `fns`, and the number of context switches."""
    world = SimWorld(ctx, src_dir, mode="interleaved", workers=len(fns), chunksize=1,
                     cfg={"tick": False, "fault": None, "stragglers": set(), "quantum_policy": quantum_policy})
    futs = [world._submit(fn, (), {}) for fn in fns]
    ctx.probes["preempt_after_shared_write"] += 0
    n = 0
    while any(not f.done() for f in futs):
        world.step()
        n += 1
        if n > 2_000_000:
            raise HarnessError("step cap exceeded in run_interleaved")
    out = []
    for f in futs:
        e = f.exception()
        out.append((None if e is not None else f.result(), e))
    ctx.sim_time += world.now
    if world.preempt_after_hot:
        ctx.probes["preempt_after_shared_write"] += world.preempt_after_hot
    return out, world.context_switches
