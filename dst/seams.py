"""Clock, RNG and audit seams shared by the engines (DESIGN §2)."""

from __future__ import annotations

import datetime as _real_datetime
import sys
from contextlib import contextmanager


class SimDatetimeModule:
    """Stands in for the `datetime` module inside nuspacesim.results_table: now() reads the
    simulated clock (seconds since 2020-01-01 00:00:00)."""

    def __init__(self, clock):
        self._clock = clock
        outer = self

        class _DT(_real_datetime.datetime):
            @classmethod
            def now(cls, tz=None):
                outer.reads += 1
                return _real_datetime.datetime(2020, 1, 1) + _real_datetime.timedelta(seconds=outer._clock())

        self.datetime = _DT
        self.reads = 0

    def __getattr__(self, name):
        return getattr(_real_datetime, name)


def sim_time_string(seconds):
    return f"{_real_datetime.datetime(2020, 1, 1) + _real_datetime.timedelta(seconds=seconds):%Y%m%d%H%M%S}"


@contextmanager
def simulated_clock(clock):
    """Replace the wall clock seen by the results table."""
    rt = sys.modules["nuspacesim.results_table"]
    saved = rt.datetime
    mod = SimDatetimeModule(clock)
    rt.datetime = mod
    try:
        yield mod
    finally:
        rt.datetime = saved


@contextmanager
def captured_table():
    """Wrap results_table.init so the harness can see the table compute() builds."""
    rt = sys.modules["nuspacesim.results_table"]
    saved = rt.init
    box = {"table": None, "calls": 0, "driver": None}

    def init(*a, **k):
        t = saved(*a, **k)
        box["table"] = t
        # the frame that builds the table is the one that drives the stages (compute() itself, or
        # whatever compute() delegates to after a refactoring)
        box["driver"] = sys._getframe(1)
        box["calls"] += 1
        return t

    rt.init = init
    try:
        yield box
    finally:
        rt.init = saved
