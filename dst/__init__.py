"""Deterministic simulation with fault injection for nuSpaceSim (see /verif/DESIGN.md)."""
