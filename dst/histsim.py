"""Engine C — generated call histories on long-lived objects against memoryless models (DESIGN §6).

Helpers shared by C05 and C11: NaN-aware bit comparison, argument digests, argument layout
variation, the constant random stream, index-list generation.  No fault kind lives here:
what is explored is order, composition and repetition of calls.
"""

from __future__ import annotations

import hashlib
import sys
from contextlib import contextmanager

import numpy as np

CONST_U = 0.37109375  # exactly representable; the "fixed random number" every event receives


def native(a):
    """Same values in native byte order (a big-endian input may legitimately give a big-endian
    output: what is compared is values, bit for bit, not storage order)."""
    a = np.asarray(a)
    if a.dtype.byteorder in (">", "<") and not a.dtype.isnative:
        return a.astype(a.dtype.newbyteorder("="))
    return a


def abytes(a):
    a = native(a)
    return str(a.dtype).encode() + str(a.shape).encode() + np.ascontiguousarray(a).tobytes()


def digest_args(args):
    h = hashlib.sha256()
    for a in args:
        if isinstance(a, np.ndarray):
            h.update(abytes(a))
    return h.digest()


def rows_bytes(arr):
    """Per-event byte strings of an array whose first axis is the batch."""
    a = np.ascontiguousarray(np.asarray(arr))
    if a.ndim == 0:
        raise ValueError("0-d output has no per-event rows")
    n = a.shape[0]
    if n == 0:
        return []
    flat = a.reshape(n, -1)
    w = flat.shape[1] * flat.dtype.itemsize
    raw = flat.tobytes()
    return [raw[i * w : (i + 1) * w] for i in range(n)]


def layout(ch, a, label="layout"):
    """Fresh C-contiguous copy (value 0) or, for a seeded minority, a strided or offset view
    of a larger buffer holding the same values.

    Negative-stride views are deliberately NOT generated: on this numpy build (2.5.3) the
    library's own ufuncs (power, exp, log, log10, arccos) return last-bit-different results
    for a reversed view than for the same values stored contiguously (measured: 1087 of
    20001 elements for 10**x).  That is numpy's behaviour, not the repository's, and a check
    that demanded bit-identity there raised a false alarm on Taus.tau_energy (DESIGN §9-g)."""
    a = np.asarray(a)
    k = ch.draw(9, label)
    if a.ndim == 1 and a.size and k == 7:  # a read-only array: no stage has any business writing into its arguments
        r = np.array(a, copy=True)
        r.setflags(write=False)
        return r
    if a.ndim == 1 and a.size and k == 8 and a.dtype.kind == "f":  # non-native byte order (data read from a FITS/big-endian file)
        return a.astype(a.dtype.newbyteorder(">" if sys.byteorder == "little" else "<"))
    if a.ndim != 1 or k < 5 or a.size == 0:
        return np.array(a, copy=True)
    if k == 5:  # every second element of a padded buffer
        buf = np.full(2 * a.size + 3, -7.25, dtype=a.dtype)
        buf[1 : 1 + 2 * a.size : 2] = a
        return buf[1 : 1 + 2 * a.size : 2]
    if k == 6:  # offset view
        buf = np.full(a.size + 5, -7.25, dtype=a.dtype)
        buf[3 : 3 + a.size] = a
        return buf[3 : 3 + a.size]
    return np.array(a, copy=True)


@contextmanager
def constant_stream(c=CONST_U):
    """np.random.uniform / rand / random_sample return the same number for every event, so
    'fixed random numbers' is well defined under permutation and splitting whatever the draw order."""
    saved = (np.random.uniform, np.random.rand, np.random.random_sample, np.random.random)
    calls = [0]

    def uniform(low=0.0, high=1.0, size=None):
        calls[0] += 1
        if size is None:
            return low + c * (high - low)
        return np.full(size, 1.0) * (low + c * (np.asarray(high) - low))

    def rand(*shape):
        calls[0] += 1
        return np.full(shape, c) if shape else c

    def random_sample(size=None):
        calls[0] += 1
        return c if size is None else np.full(size, c)

    np.random.uniform, np.random.rand, np.random.random_sample, np.random.random = uniform, rand, random_sample, random_sample
    try:
        yield calls
    finally:
        np.random.uniform, np.random.rand, np.random.random_sample, np.random.random = saved


def draw_indices(ch, m, max_len, label="idx"):
    """An index list into a pool of m events: subset, permutation, split halves, repeats,
    single event.  Value 0 everywhere = the single first event."""
    style = ch.draw(7, label + "_style")
    if style == 0:
        return [ch.draw(m, label + "_one")]
    if style == 1:  # contiguous slice
        a = ch.draw(m, label + "_a")
        n = 1 + ch.draw(min(max_len, m - a), label + "_n")
        return list(range(a, a + n))
    if style == 2:  # arbitrary list, repeats allowed
        n = 1 + ch.draw(max_len, label + "_n")
        return [ch.draw(m, label + "_e") for _ in range(n)]
    if style == 3:  # reversed slice
        a = ch.draw(m, label + "_a")
        n = 1 + ch.draw(min(max_len, m - a), label + "_n")
        return list(range(a + n - 1, a - 1, -1))
    if style == 4:  # strided subset
        step = 2 + ch.draw(5, label + "_step")
        a = ch.draw(m, label + "_a")
        return list(range(a, m, step))[:max_len] or [a]
    if style == 5:  # the same event repeated
        e = ch.draw(m, label + "_one")
        return [e] * (2 + ch.draw(min(6, max_len), label + "_rep"))
    # seeded permutation of a prefix
    n = 2 + ch.draw(max(1, min(max_len, m) - 1), label + "_n")
    idx = list(range(n))
    for i in range(n - 1, 0, -1):
        j = ch.draw(i + 1, label + "_sw")
        idx[i], idx[j] = idx[j], idx[i]
    return idx


class Held:
    """Results the caller still holds must not change when the object is called again (a
    returned array that aliases an internal work buffer is silently overwritten later)."""

    def __init__(self, keep=8):
        self.keep = keep
        self.items = []  # (opi, name, [arrays], [bytes])

    def hold(self, opi, name, arrays):
        arrs = [a for a in arrays if isinstance(a, np.ndarray)]
        if not arrs:
            return
        self.items.append((opi, name, arrs, [abytes(a) for a in arrs]))
        if len(self.items) > self.keep:
            self.items.pop(0)

    def changed(self):
        """First (opi, name, output index) whose held array changed since it was returned, or None."""
        for opi, name, arrs, bs in self.items:
            for k, (a, b) in enumerate(zip(arrs, bs)):
                if abytes(a) != b:
                    return opi, name, k
        return None
