"""Engine B — compute() killed or failed at seeded traced steps; disk state inspected (DESIGN §5).

A *stage* is a call made directly from compute()'s own frame; a *stage boundary* is the
return of such a call after which the results table has grown (columns or header keys).
That is the property's own granularity ("after each stage completes") and does not depend
on how the writer is named or structured inside compute().
"""

from __future__ import annotations

import hashlib
import json
import os
import shutil
import sys
import tempfile

from .core import HarnessError


class InjectedStageFault(Exception):
    pass


def _table_sig(t):
    if t is None:
        return None
    return (tuple(t.colnames), tuple(t.meta.keys()))


def _table_digest(t):
    import numpy as np

    h = hashlib.sha256()
    for name in t.colnames:
        c = t[name]
        h.update(name.encode())
        if hasattr(c, "jd1"):  # astropy Time mixin column: never hash object pointers
            h.update(np.ascontiguousarray(c.jd1).tobytes() + np.ascontiguousarray(c.jd2).tobytes())
            continue
        a = np.asarray(c)
        if a.dtype == object:
            h.update(repr(a.tolist()).encode())
        else:
            h.update(np.ascontiguousarray(a).tobytes())
    for k, v in t.meta.items():
        h.update(repr((k, v)).encode())
    return h.hexdigest()[:16]


class StageTracer:
    """Counts traced steps (line events in repository frames), recognises stage boundaries,
    takes snapshots, and fires one fault at a chosen step."""

    def __init__(self, src_prefix, box, out_path, *, snapshot=False, side_dir=None, fault=None, report_fd=None,
                 trace_fits=False):
        self.src_prefix = src_prefix
        self.box = box
        self.out_path = out_path
        self.snapshot = snapshot
        self.side_dir = side_dir
        self.fault = fault  # None | {"kind": "die"|"raise", "step": int}
        self.report_fd = report_fd
        self.trace_fits = trace_fits
        self.steps = 0
        self.k = 0
        self.compute_frame = None
        self.stage_frame = None
        self.stage_exc = False
        self.stage_start = 0
        self.last_sig = None
        self.in_fits = 0
        self.fits_lines = 0
        self.in_import = 0
        self.snaps = [None]  # S_0: no file
        self.sides = [None]
        self.tdigests = [None]
        self.bsteps = [0]
        self.spans = []  # (first_step, last_step, grew) for every depth-1 call
        self.fired = None
        self.compute_done = False
        self.stage_names = []
        self.reanchored = False
        self.outer_frame = None

    # -- fault --------------------------------------------------------------------
    def _site(self, frame):
        fn = frame.f_code.co_filename
        if fn.startswith(self.src_prefix):
            fn = fn[len(self.src_prefix):]
        else:
            fn = "/".join(fn.split("/")[-3:])
        return f"{fn}:{frame.f_lineno}"

    def _fire(self, frame):
        info = {
            "k": self.k,
            "in_stage": self.stage_frame is not None,
            "site": self._site(frame),
            "step": self.steps,
            "in_fits": bool(self.in_fits),
            "kind": self.fault["kind"],
        }
        self.fired = info
        kind = self.fault["kind"]
        exc = self.fault.get("exc")
        self.fault = None
        if kind == "die":
            os.write(self.report_fd, (json.dumps({"status": "died", **info}) + "\n").encode())
            os._exit(137)  # no finally, no atexit, no flush: what SIGKILL leaves behind
        # what a stage raises need not be an Exception: Ctrl-C, sys.exit() in a plug-in and an
        # exhausted heap all leave compute() as BaseException / MemoryError
        if exc in ("KeyboardInterrupt", "SystemExit", "MemoryError"):
            raise {"KeyboardInterrupt": KeyboardInterrupt, "SystemExit": SystemExit, "MemoryError": MemoryError}[exc](f"injected stage failure at {info['site']}")
        raise InjectedStageFault(f"injected stage failure at {info['site']}")

    # -- boundaries ---------------------------------------------------------------
    def _find_table(self):
        t = self.box["table"]
        if t is None and self.compute_frame is not None:
            # fallback when results_table.init is not how the table is made
            from astropy.table import Table

            for v in self.compute_frame.f_locals.values():
                if isinstance(v, Table):
                    self.box["table"] = t = v
                    break
        return t

    def _boundary_check(self):
        t = self._find_table()
        if t is None:
            return False
        sig = _table_sig(t)
        if self.last_sig is None:
            # first sight of the (still empty) table: the baseline, not a stage boundary
            self.last_sig = sig
            if not t.colnames:
                return False
            self.last_sig = ((), sig[1])
        grew = sig != self.last_sig
        if grew:
            self.last_sig = sig
            self.k += 1
            self.bsteps.append(self.steps)
            if self.snapshot:
                try:
                    with open(self.out_path, "rb") as f:
                        self.snaps.append(f.read())
                except FileNotFoundError:
                    self.snaps.append(None)
                self.tdigests.append(_table_digest(t))
                side = os.path.join(self.side_dir, f"w{self.k}.fits")
                # what the table holds *now*, written by the harness the way the repo writes
                guard = getattr(self, "side_guard", None)
                if guard:
                    guard(False)  # an injected file-size limit is not meant for the harness's own copy
                try:
                    t.copy(copy_data=True).write(side, format="fits", overwrite=True)
                finally:
                    if guard:
                        guard(True)
                with open(side, "rb") as f:
                    self.sides.append(f.read())
                os.remove(side)
        return grew

    # -- trace functions ------------------------------------------------------------
    def local_import(self, frame, event, arg):
        if event == "return":
            self.in_import -= 1
        return self.local_import

    def glob(self, frame, event, arg):
        code = frame.f_code
        fn = code.co_filename
        # module bodies run once per process (first import): never steps, whoever imports
        if code.co_name == "<module>":
            self.in_import += 1
            return self.local_import
        if self.in_import:
            return None
        if self.compute_frame is None:
            if code.co_name == "compute" and fn.startswith(self.src_prefix) and fn.endswith("compute.py"):
                self.compute_frame = frame
                self.last_sig = None
                return self.local
            return self.local if fn.startswith(self.src_prefix) else None
        if not self.reanchored and isinstance(self.box, dict) and self.box.get("driver") is not None:
            # stages are the calls made by the frame that builds the results table; if compute()
            # only delegates (a wrapper around the real driver), that frame is the driver
            self.reanchored = True
            drv = self.box["driver"]
            if drv is not self.compute_frame and drv.f_code.co_filename.startswith(self.src_prefix):
                self.outer_frame = self.compute_frame
                self.compute_frame = drv
                self.stage_frame = None
                self.stage_names = []
                self.spans = []
        if frame.f_back is self.compute_frame and self.stage_frame is None and not self.compute_done:
            if code.co_name in ("<genexpr>", "<listcomp>", "<lambda>") :
                return self.local if fn.startswith(self.src_prefix) else None
            self.stage_frame = frame
            self.fits_lines = 0
            self.stage_exc = False
            self.stage_start = self.steps + 1
            self.stage_names.append(code.co_qualname)
            return self.local if fn.startswith(self.src_prefix) else self.local_foreign
        if fn.startswith(self.src_prefix):
            return self.local
        if self.trace_fits and "/astropy/io/fits/" in fn and self.stage_frame is not None:
            return self.local_fits
        return None

    def local(self, frame, event, arg):
        if event == "line":
            self.steps += 1
            if frame is self.stage_frame:
                self.stage_exc = False
            if self.fault is not None and self.fault.get("step") is not None and self.steps >= self.fault["step"]:
                self._fire(frame)
        elif event == "exception":
            if frame is self.stage_frame:
                self.stage_exc = True
        elif event == "return":
            if frame is self.stage_frame:
                self._stage_return()
            elif frame is self.compute_frame:
                self.compute_done = True
        return self.local

    def local_foreign(self, frame, event, arg):
        if event == "exception" and frame is self.stage_frame:
            self.stage_exc = True
        elif event == "line" and frame is self.stage_frame:
            self.stage_exc = False
        elif event == "return" and frame is self.stage_frame:
            self._stage_return()
        return self.local_foreign

    def local_fits(self, frame, event, arg):
        if event == "line":
            self.fits_lines += 1
            self.in_fits += 1
            try:
                f = self.fault
                if f is not None and f.get("fits_k") == self.k and self.fits_lines >= f["fits_line"]:
                    self._fire(frame)
            finally:
                self.in_fits -= 1
        return self.local_fits

    def _stage_return(self):
        grew = False
        if not self.stage_exc:
            grew = self._boundary_check()
        self.spans.append((self.stage_start, self.steps, grew))
        self.stage_frame = None


# ---------------------------------------------------------------------------------------


class _Null:
    def write(self, s):
        return len(s)

    def flush(self):
        pass

    def isatty(self):
        return False


def _compute_call(cfg, rng_seed, clock_s, out_path, write_stages, tracer_factory, compute_kw=None):
    """Runs compute() once under the clock / RNG / scheduler seams.  Returns (status, table, tracer)."""
    import dask
    import numpy as np

    from . import seams

    compute = sys.modules["nuspacesim.compute"].compute
    np.random.seed(rng_seed)
    status, table = "returned", None
    saved_out = sys.stdout
    sys.stdout = _Null()
    try:
        with seams.simulated_clock(lambda: clock_s), seams.captured_table() as box, dask.config.set(scheduler="synchronous"):
            tr = tracer_factory(box)
            if tr is not None:
                sys.settrace(tr.glob)
            try:
                kw = dict(compute_kw or {})
                given = out_path
                if kw.pop("_output_as_pathlike", False) and out_path is not None:
                    import pathlib

                    given = pathlib.Path(out_path)  # the name is the user's, and so is its type: os.PathLike
                table = compute(cfg, output_file=given, write_stages=write_stages, **kw)
            except InjectedStageFault:
                status = "raised-injected"
            except (KeyboardInterrupt, SystemExit, MemoryError) as e:
                if tr is not None and tr.fired and "injected stage failure" in str(e):
                    status = "raised-injected"
                elif isinstance(e, MemoryError):
                    status = f"raised:{type(e).__name__}:{e}"[:300]
                else:
                    raise
            except Exception as e:  # noqa: BLE001
                status = f"raised:{type(e).__name__}:{e}"[:300]
            finally:
                sys.settrace(None)
    finally:
        sys.stdout = saved_out
    return status, table, tr


def reference_run(cfg, rng_seed, clock_s, src_prefix, outname="out.fits", compute_kw=None):
    """Fault-free traced run with staging on.  In-process (the caller is a pool worker)."""
    d = tempfile.mkdtemp(prefix="c17ref-")
    try:
        out = os.path.join(d, outname)
        side = os.path.join(d, "side")
        os.mkdir(side)
        cwd = os.getcwd()
        os.chdir(d)
        try:
            status, table, tr = _compute_call(
                cfg, rng_seed, clock_s, out, True,
                lambda box: StageTracer(src_prefix, box, out, snapshot=True, side_dir=side),
                compute_kw,
            )
        finally:
            os.chdir(cwd)
        ref = {
            "status": status, "K": tr.k, "snaps": tr.snaps, "sides": tr.sides, "tdigests": tr.tdigests,
            "bsteps": tr.bsteps, "spans": tr.spans, "steps": tr.steps, "stage_names": tr.stage_names,
            "final": None, "listing": None, "rows": None,
        }
        if status == "returned":
            fin = os.path.join(side, "final.fits")
            table.write(fin, format="fits", overwrite=True)  # what apps/run.py does at the end
            ref["final"] = open(fin, "rb").read()
            os.remove(fin)
            ref["rows"] = len(table)
        ref["listing"] = sorted(os.listdir(d))
        return ref
    finally:
        shutil.rmtree(d, ignore_errors=True)


def fault_run(cfg, rng_seed, clock_s, src_prefix, fault, *, write_stages=True, give_output=True, trace_fits=False, outname="out.fits", compute_kw=None, workdir=None, keep_dir=False, check_boundaries=False):
    """One forked run.  fault: None | {"kind","step"}.  Returns dict(report, file_bytes, listing, audit)."""
    d = workdir or tempfile.mkdtemp(prefix="c17case-")
    rfd, wfd = os.pipe()
    pid = os.fork()
    if pid == 0:  # ------------------------------------------------ child
        code = 3
        try:
            os.close(rfd)
            dn = os.open(os.devnull, os.O_WRONLY)
            os.dup2(dn, 1)
            os.dup2(dn, 2)
            os.chdir(d)
            out = os.path.join(d, outname) if give_output else None
            audit = []
            active = [True]
            io = {"n": 0, "fired": None}
            io_at = fault.get("write_no") if fault and fault.get("kind") == "ioerr" else None

            def hook(event, args):
                if not active[0]:
                    return
                if event == "open":
                    path, mode, flags = args
                    wr = (isinstance(mode, str) and any(c in mode for c in "wax+")) or (
                        isinstance(flags, int) and flags & (os.O_WRONLY | os.O_RDWR | os.O_CREAT | os.O_TRUNC | os.O_APPEND)
                    )
                    if wr:
                        audit.append(["open", str(path)])
                        sp = str(path)
                        if io_at is not None and sp.startswith(d) and os.sep + "side" + os.sep not in sp:
                            # the disk refuses the io_at-th file the run opens for writing
                            io["n"] += 1
                            if io["n"] == io_at and io["fired"] is None:
                                import errno

                                io["fired"] = {"write_no": io["n"], "path": os.path.basename(sp), "k": tracer_box[0].k if tracer_box[0] else None,
                                               "in_stage": bool(tracer_box[0] and tracer_box[0].stage_frame is not None)}
                                raise OSError(errno.ENOSPC, "No space left on device (injected)")
                elif event in ("os.remove", "os.rename", "os.mkdir", "shutil.move", "os.truncate"):
                    audit.append([event, str(args[0])])

            sys.addaudithook(hook)
            tracer_box = [None]
            io_mode = io_at is not None or check_boundaries
            torn = fault if fault and fault.get("kind") == "torn" else None
            if torn:
                # torn write at the FITS layer's file seam: the n-th write call of the run on a file
                # in its directory puts HALF of its bytes on disk, then the device fails (EIO) —
                # or the process dies
                io_mode = True
                import astropy.io.fits.file as ff

                calls = {"n": 0}
                orig_write, orig_writearray = ff._File.write, ff._File.writearray

                def _mine(fobj):
                    nm = str(getattr(fobj, "name", "") or "")
                    return nm.startswith(d) and os.sep + "side" + os.sep not in nm

                def _fail(fobj, what):
                    t = tracer_box[0]
                    io["fired"] = {"write_call": calls["n"], "path": os.path.basename(str(fobj.name)), "what": what, "k": t.k if t else None,
                                   "in_stage": bool(t and t.stage_frame is not None)}
                    try:
                        fobj._file.flush()
                    except Exception:  # noqa: BLE001
                        pass
                    if torn.get("mode") == "die":
                        os.write(wfd, (json.dumps({"status": "died", "io": io["fired"], "k": io["fired"]["k"], "in_stage": True, "site": "torn-write", "step": 0, "kind": "die"}) + "\n").encode())
                        os._exit(137)
                    import errno

                    raise OSError(errno.EIO, "Input/output error after a partial write (injected)")

                def _tear_point(string, how):
                    n = len(string)
                    if how == 1:
                        # the write stops at a record boundary, right before its last 80-byte
                        # record that holds anything (for a FITS header: the END card)
                        body = string.rstrip(b" " if isinstance(string, bytes) else " ")
                        return max(0, ((len(body) - 1) // 80) * 80)
                    if how == 2:
                        return min(n, 512 * (1 + torn.get("sector", 0) % max(1, n // 512)))
                    return n // 2

                def write(self, string):
                    if active[0] and _mine(self) and io["fired"] is None:
                        calls["n"] += 1
                        if calls["n"] == torn["write_call"]:
                            cut = _tear_point(string, torn.get("tear", 0))
                            orig_write(self, string[:cut])
                            _fail(self, f"{cut} of {len(string)} bytes written")
                    return orig_write(self, string)

                def writearray(self, array):
                    if active[0] and _mine(self) and io["fired"] is None:
                        calls["n"] += 1
                        if calls["n"] == torn["write_call"]:
                            try:
                                orig_writearray(self, array[: max(0, len(array) // 2)])
                            except Exception:  # noqa: BLE001
                                pass
                            _fail(self, f"array of {getattr(array, 'nbytes', 0)} bytes")
                    return orig_writearray(self, array)

                ff._File.write, ff._File.writearray = write, writearray

                # the same fault one layer down: a file copied INTO the run's directory through
                # the OS (shutil.move / copy across file systems -> os.sendfile, copyfileobj)
                import shutil as _sh

                class _FdObj:
                    def __init__(self, name):
                        self.name = name
                        self._file = self

                    def flush(self):
                        pass

                def _fd_name(fd):
                    try:
                        return os.readlink(f"/proc/self/fd/{int(fd)}")
                    except Exception:  # noqa: BLE001
                        return ""

                orig_sendfile = getattr(os, "sendfile", None)
                orig_copyfileobj = _sh.copyfileobj

                def sendfile(out_fd, in_fd, offset, count, *a, **kw):
                    if active[0] and io["fired"] is None:
                        fo = _FdObj(_fd_name(out_fd))
                        if _mine(fo):
                            calls["n"] += 1
                            if calls["n"] == torn["write_call"]:
                                try:
                                    left = os.fstat(in_fd).st_size - (offset or 0)
                                except Exception:  # noqa: BLE001
                                    left = count
                                part = max(1, min(count, left) // 2)
                                orig_sendfile(out_fd, in_fd, offset, part)
                                _fail(fo, f"os.sendfile: {part} of {min(count, left)} bytes copied")
                    return orig_sendfile(out_fd, in_fd, offset, count, *a, **kw)

                def copyfileobj(fsrc, fdst, length=0):
                    if active[0] and io["fired"] is None and _mine(fdst):
                        calls["n"] += 1
                        if calls["n"] == torn["write_call"]:
                            data = fsrc.read()
                            fdst.write(data[: max(1, len(data) // 2)])
                            try:
                                fdst.flush()
                            except Exception:  # noqa: BLE001
                                pass
                            _fail(_FdObj(str(fdst.name)), f"copyfileobj: {max(1, len(data) // 2)} of {len(data)} bytes copied")
                    return orig_copyfileobj(fsrc, fdst, length) if length else orig_copyfileobj(fsrc, fdst)

                if orig_sendfile is not None:
                    os.sendfile = sendfile
                _sh.copyfileobj = copyfileobj
                if torn.get("tmpdir"):
                    # the user's scratch area ($TMPDIR) lies on another file system than the output
                    os.environ["TMPDIR"] = torn["tmpdir"]
                    tempfile.tempdir = None

            fsz = fault if fault and fault.get("kind") == "fsize" else None
            limit_guard = None
            if fsz:
                # the file system stops accepting data at byte L of any file (a quota, a file-size
                # limit, a disk that fills up): the write that crosses L is cut SHORT — the OS
                # reports fewer bytes written than asked — and the next one fails with EFBIG.
                # Real kernel behaviour (RLIMIT_FSIZE), nothing patched.
                io_mode = True
                import resource

                soft0, hard0 = resource.getrlimit(resource.RLIMIT_FSIZE)

                def limit_guard(on):
                    resource.setrlimit(resource.RLIMIT_FSIZE, (int(fsz["limit"]) if on else soft0, hard0))

            def make_tracer(box):
                if io_mode:
                    active[0] = False  # the harness's own side directory is not the run's doing
                    os.makedirs(os.path.join(d, "side"), exist_ok=True)
                    active[0] = True
                t = StageTracer(src_prefix, box, out or os.path.join(d, outname), fault=None if io_mode else fault, report_fd=wfd,
                                trace_fits=trace_fits, snapshot=io_mode, side_dir=os.path.join(d, "side"))
                tracer_box[0] = t
                if limit_guard:
                    t.side_guard = limit_guard
                    limit_guard(True)
                return t

            try:
                status, table, tr = _compute_call(cfg, rng_seed, clock_s, out, write_stages, make_tracer, compute_kw)
            finally:
                if limit_guard:
                    limit_guard(False)
            active[0] = False
            rep = {"status": status, "k_final": tr.k, "steps": tr.steps, "fired": tr.fired, "audit": audit[:50], "rows": None}
            if io_mode:
                rep["io"] = io["fired"]
                if fsz:
                    rep["io"] = {"limit": int(fsz["limit"]), "k": tr.k, "in_stage": True, "path": "(any file)", "what": f"file size limit {int(fsz['limit'])} bytes"}
                rep["io_writes_seen"] = io["n"] if not torn else calls["n"]
                rep["snap_absent"] = [kk for kk in range(1, tr.k + 1) if tr.snaps[kk] is None][:3]
                # boundaries this run itself completed after the disk error: file vs its own table
                bad = None
                for kk in range(1, tr.k + 1):
                    if tr.snaps[kk] != tr.sides[kk] and describe_diff(tr.snaps[kk], tr.sides[kk]):
                        bad = [kk, describe_diff(tr.snaps[kk], tr.sides[kk])]
                        break
                rep["boundary_mismatch"] = bad
            if status == "returned" and table is not None:
                rep["rows"] = len(table)
                os.makedirs(os.path.join(d, "side"), exist_ok=True)
                table.write(os.path.join(d, "side", "final.fits"), format="fits", overwrite=True)
            os.write(wfd, (json.dumps(rep) + "\n").encode())
            code = 0
        except BaseException as e:  # harness failure inside the child
            try:
                import traceback

                os.write(wfd, (json.dumps({"status": "harness-error", "error": traceback.format_exc()[-1500:]}) + "\n").encode())
            except Exception:
                pass
            code = 4
        finally:
            os._exit(code)
    # ---------------------------------------------------------------- parent
    os.close(wfd)
    chunks = []
    while True:
        b = os.read(rfd, 65536)
        if not b:
            break
        chunks.append(b)
    os.close(rfd)
    _, st = os.waitpid(pid, 0)
    try:
        exit_code = os.waitstatus_to_exitcode(st)
        text = b"".join(chunks).decode().strip()
        if not text:
            raise HarnessError(f"crashsim child exited with {exit_code} without a report")
        rep = json.loads(text.splitlines()[-1])
        if rep.get("status") == "harness-error":
            raise HarnessError("crashsim child: " + rep.get("error", "?"))
        if rep["status"] == "died" and exit_code != 137:
            raise HarnessError(f"child reported death but exit code is {exit_code}")
        if rep["status"] != "died" and exit_code != 0:
            raise HarnessError(f"child exit code {exit_code}, report {rep}")
        out = os.path.join(d, outname)
        fb = open(out, "rb").read() if os.path.exists(out) else None
        fin = os.path.join(d, "side", "final.fits")
        finb = open(fin, "rb").read() if os.path.exists(fin) else None
        listing = sorted(x for x in os.listdir(d) if x != "side")
        return {"report": rep, "file": fb, "final": finb, "listing": listing, "dir": d}
    finally:
        if not keep_dir:
            shutil.rmtree(d, ignore_errors=True)


# ------------------------------------------------------------------ comparing FITS payloads


def parse_fits(b):
    """bytes -> (colnames, {name: bytes}, [(key, value)...]) or raises."""
    import io
    import warnings

    import numpy as np
    from astropy.io import fits
    from astropy.table import Table

    with warnings.catch_warnings():
        warnings.simplefilter("ignore")
        t = Table.read(io.BytesIO(b), format="fits")
        cols = {}
        for n in t.colnames:
            cols[n] = np.ascontiguousarray(np.asarray(t[n])).tobytes()
        with fits.open(io.BytesIO(b)) as h:
            hdr = h[1].header
            structural = ("XTENSION", "BITPIX", "NAXIS", "PCOUNT", "GCOUNT", "TFIELDS", "TTYPE", "TFORM", "TUNIT", "TDIM", "TNULL", "TSCAL", "TZERO", "TDISP", "EXTNAME")
            cards = [(c.keyword, c.value if c.value == c.value else "NaN") for c in hdr.cards if not c.keyword.startswith(structural) and c.keyword not in ("", "COMMENT", "HISTORY")]
    return list(t.colnames), cols, cards, len(t)


def describe_diff(actual, expected):
    """Human-readable first difference between two FITS byte strings (either may be None)."""
    if actual is None and expected is None:
        return None
    if actual is None:
        return "file is absent, expected a table"
    if expected is None:
        return "file exists, expected none"
    if actual == expected:
        return None
    try:
        a = parse_fits(actual)
    except Exception as e:  # noqa: BLE001
        return f"file is not a readable FITS table: {type(e).__name__}: {e}"[:300]
    e = parse_fits(expected)
    if a[0] != e[0]:
        return f"columns {a[0]} != expected {e[0]}"
    if a[3] != e[3]:
        return f"{a[3]} rows != expected {e[3]}"
    for n in a[0]:
        if a[1][n] != e[1][n]:
            return f"column {n} differs bit for bit"
    if a[2] != e[2]:
        ka = [c for c in a[2] if c not in e[2]]
        ke = [c for c in e[2] if c not in a[2]]
        return f"header differs: only in file {ka[:4]}, only in expected {ke[:4]}"
    return None  # same content, different bytes (padding/card order): content-equal


# ------------------------------------------------------------------ concurrent staged runs


_HOT = {"on": False, "threads": None, "installed": False}


def _install_write_hook():
    """Process-wide audit hook (cannot be removed; inert unless _HOT['on']): marks the thread
    that just opened a file for writing, replaced or removed one, so that the concurrent
    scheduler can pre-empt it at its next traced line — switches are biased to land right
    after a run touched the disk, where two runs can step on each other."""
    if _HOT["installed"]:
        return
    import threading

    def hook(event, args):
        if not _HOT["on"]:
            return
        if event == "open":
            path, mode, flags = args
            wr = (isinstance(mode, str) and any(c in mode for c in "wax+")) or (
                isinstance(flags, int) and flags & (os.O_WRONLY | os.O_RDWR | os.O_CREAT | os.O_TRUNC | os.O_APPEND)
            )
            if not wr:
                return
        elif event not in ("os.remove", "os.rename", "os.replace", "shutil.move"):
            return
        _HOT["threads"][threading.get_ident()] = True

    sys.addaudithook(hook)
    _HOT["installed"] = True


class _ThreadBox:
    """box['table'] of the calling thread (results_table.init is wrapped once, globally)."""

    def __init__(self, tables, ident):
        self.tables = tables
        self.ident = ident

    def __getitem__(self, k):
        return self.tables.get(self.ident)

    def __setitem__(self, k, v):
        self.tables[self.ident] = v


def concurrent_runs(ctx, cfgs, rng_seed, clock_s, src_prefix):
    """Two or more compute(write_stages=True) calls in one process, each in a real thread that
    runs only while it holds the baton; the seeded scheduler decides, at repository-line
    granularity, who runs next and for how long.  All runs stage into the SAME directory
    (different output names).  Each run's tracer snapshots its own file at each of its own
    stage boundaries (the other threads are parked at that instant).

    Returns a list of dicts (one per run): status, K, snaps, sides, final, switches."""
    import threading

    import dask
    import dask.diagnostics.progress as prog
    import numpy as np

    from . import seams

    ch = ctx.ch
    d = tempfile.mkdtemp(prefix="c17conc-")
    rt = sys.modules["nuspacesim.results_table"]
    compute = sys.modules["nuspacesim.compute"].compute
    tables = {}
    saved_init = rt.init
    saved_pb = (prog.ProgressBar._start, prog.ProgressBar._finish)
    saved_out = sys.stdout
    cwd = os.getcwd()

    def init(*a, **k):
        t = saved_init(*a, **k)
        tables[threading.get_ident()] = t
        return t

    def pb_start(bar, dsk):  # no timer thread: nothing may run outside the baton
        bar._state = None
        bar._start_time = 0.0
        bar._running = False

    def pb_finish(bar, dsk, state, errored):
        bar._running = False
        bar.last_duration = 0.0

    runs = []
    for i, cfg in enumerate(cfgs):
        runs.append({
            "i": i, "cfg": cfg, "out": os.path.join(d, f"out{i}.fits"), "go": threading.Semaphore(0), "back": threading.Semaphore(0),
            "done": False, "status": None, "table": None, "tracer": None, "budget": 0, "grants": 0, "stop_hot": False, "hot_stops": 0,
        })
    side = os.path.join(d, "side")
    os.mkdir(side)

    def body(r):
        r["go"].acquire()
        me = threading.get_ident()
        box = _ThreadBox(tables, threading.get_ident())
        tr = StageTracer(src_prefix, box, r["out"], snapshot=True, side_dir=os.path.join(side, str(r["i"])))
        os.mkdir(os.path.join(side, str(r["i"])))
        r["tracer"] = tr
        orig_local = tr.local

        def local(frame, event, arg):
            res = orig_local(frame, event, arg)
            if event == "line":
                r["budget"] -= 1
                hot = r["stop_hot"] and _HOT["threads"].pop(me, False)
                if r["budget"] <= 0 or hot:
                    if hot:
                        r["hot_stops"] += 1
                    r["back"].release()
                    r["go"].acquire()
            return local if res is not None else None

        tr.local = local
        sys.settrace(tr.glob)
        try:
            r["table"] = compute(r["cfg"], output_file=r["out"], write_stages=True)
            r["status"] = "returned"
        except BaseException as e:  # noqa: BLE001
            r["status"] = f"raised:{type(e).__name__}:{e}"[:300]
        finally:
            sys.settrace(None)
            r["done"] = True
            r["back"].release()

    _install_write_hook()
    _HOT["threads"] = {}
    try:
        os.chdir(d)
        _HOT["on"] = True
        rt.init = init
        prog.ProgressBar._start, prog.ProgressBar._finish = pb_start, pb_finish
        sys.stdout = _Null()
        np.random.seed(rng_seed)
        with seams.simulated_clock(lambda: clock_s), dask.config.set(scheduler="synchronous"):
            for r in runs:
                r["thread"] = threading.Thread(target=body, args=(r,), daemon=True)
                r["thread"].start()
            last = None
            switches = 0
            steps = 0
            while True:
                live = [r for r in runs if not r["done"]]
                if not live:
                    break
                r = live[ch.draw(len(live), "conc_pick")]
                q = (4000, 1200, 300, 60, 12, 2)[ch.draw(6, "conc_quantum")]
                r["stop_hot"] = ch.draw(2, "conc_stop_after_write") == 1
                if last is not None and last is not r and not last["done"]:
                    switches += 1
                last = r
                r["budget"] = q
                r["grants"] += 1
                r["go"].release()
                if not r["back"].acquire(timeout=120):
                    raise HarnessError("concurrent run did not give the baton back within 120 s")
                steps += 1
                if steps > 200000:
                    raise HarnessError("concurrent scheduler step cap")
        out = []
        for r in runs:
            tr = r["tracer"]
            res = {"status": r["status"], "K": tr.k, "snaps": tr.snaps, "sides": tr.sides, "final": None, "switches": switches,
                   "grants": r["grants"], "hot_stops": r["hot_stops"], "stage_names": tr.stage_names, "spans": tr.spans, "steps": tr.steps, "rows": None}
            if r["status"] == "returned":
                fin = os.path.join(side, f"final{r['i']}.fits")
                r["table"].write(fin, format="fits", overwrite=True)
                res["final"] = open(fin, "rb").read()
                res["rows"] = len(r["table"])
                res["file"] = open(r["out"], "rb").read() if os.path.exists(r["out"]) else None
            out.append(res)
        return out
    finally:
        _HOT["on"] = False
        os.chdir(cwd)
        sys.stdout = saved_out
        rt.init = saved_init
        prog.ProgressBar._start, prog.ProgressBar._finish = saved_pb
        shutil.rmtree(d, ignore_errors=True)
