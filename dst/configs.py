"""Seeded sampler of NssConfig objects (shared by C14 and C17).  Value 0 of every draw is the
repository default, so shrinking moves towards the default diffuse run."""

from __future__ import annotations

import math


def draw_config(ch, max_events=60, allow_zero=True):
    from nuspacesim.config import NssConfig, Simulation

    d = {}
    cfg = NssConfig()
    sim = cfg.simulation
    det = cfg.detector
    d["mode"] = ("Diffuse", "Target")[ch.draw(2, "mode")]
    sim.mode = d["mode"]
    # thrown events: small batches, including 0, 1, 2, 3
    nsel = ch.draw(6, "events_class")
    if nsel == 5 and max_events >= 60 and ch.draw(5, "events_big") == 4:
        n = 110 + ch.draw(160, "events_many")  # more than one dask partition of in-range showers
    elif nsel == 0:
        n = 12
    elif nsel == 1:
        n = 1 + ch.draw(4, "events_tiny")
    elif nsel == 2 and allow_zero:
        n = 0
    else:
        n = 5 + ch.draw(max(1, max_events - 4), "events")
    if d["mode"] == "Target":
        n = n * 20  # a few percent of the instants have the source below the limb
    d["thrown_events"] = n
    sim.thrown_events = n
    sp = ch.draw(3, "spectrum")
    if sp == 0:
        d["spectrum"] = "mono(8.0)"
    elif sp == 1:
        e = (7.0, 9.5, 10.5, 6.0, 12.0)[ch.draw(5, "mono_E")]
        sim.spectrum = Simulation.MonoSpectrum(log_nu_energy=e)
        d["spectrum"] = f"mono({e})"
    else:
        idx = (2.0, 1.5, 2.7)[ch.draw(3, "pl_index")]
        lo = (6.0, 7.0, 8.5)[ch.draw(3, "pl_lo")]
        hi = (12.0, 10.0, 9.0)[ch.draw(3, "pl_hi")]
        sim.spectrum = Simulation.PowerSpectrum(index=idx, lower_bound=lo, upper_bound=hi)
        d["spectrum"] = f"power({idx},{lo},{hi})"
    cl = ch.draw(3, "cloud")
    if cl == 0:
        d["cloud"] = "none"
    elif cl == 1:
        a = (2.0, 8.0, 15.0, 0.5)[ch.draw(4, "cloud_alt")]
        sim.cloud_model = Simulation.MonoCloud(altitude=a)
        d["cloud"] = f"mono({a})"
    else:
        m = 1 + ch.draw(12, "cloud_month")
        sim.cloud_model = Simulation.PressureMapCloud(month=m)
        d["cloud"] = f"pressure_map({m})"
    ch_sel = ch.draw(4, "channels")
    det.optical.enable = ch_sel in (0, 1)
    det.radio.enable = ch_sel in (0, 2)
    d["optical"], d["radio"] = det.optical.enable, det.radio.enable
    alt = (525.0, 33.0, 100.0, 1000.0)[ch.draw(4, "det_alt")]
    det.initial_position.altitude = alt
    d["det_alt"] = alt
    if ch.draw(2, "det_pos"):
        det.initial_position.latitude = math.radians(-60 + 15 * ch.draw(9, "det_lat"))
        det.initial_position.longitude = math.radians(-150 + 30 * ch.draw(11, "det_lon"))
        d["det_latlon_deg"] = (round(math.degrees(det.initial_position.latitude)), round(math.degrees(det.initial_position.longitude)))
    tv = ("3", "1", "2")[ch.draw(3, "table_version")]
    sim.tau_shower.table_version = tv
    d["table_version"] = tv
    if ch.draw(3, "iono") == 1:
        sim.ionosphere.total_electron_content = (10.0, 1.0, 50.0, 7.0)[ch.draw(4, "tec")]
        sim.ionosphere.total_electron_error = (0.1, 5.0, 20.0)[ch.draw(3, "tecerr")]
        d["ionosphere"] = (sim.ionosphere.total_electron_content, sim.ionosphere.total_electron_error)
    if d["mode"] == "Target":
        if ch.draw(2, "target_pos"):
            sim.target.source_RA = math.radians(30 * ch.draw(12, "RA"))
            sim.target.source_DEC = math.radians(-75 + 15 * ch.draw(11, "DEC"))
        if ch.draw(2, "target_date"):
            sim.target.source_date = ("2022-06-02T01:00:00", "2023-12-21T18:30:00", "2021-03-09T06:15:30", "2024-09-01T12:00:00")[ch.draw(4, "date")]
        if ch.draw(2, "target_obst"):
            sim.target.source_obst = (86400, 3600, 7 * 86400, 600)[ch.draw(4, "obst")]
        if ch.draw(3, "sun_moon") == 1:
            det.sun_moon.sun_moon_cuts = False
        d["target"] = (round(sim.target.source_RA, 3), round(sim.target.source_DEC, 3), sim.target.source_date, sim.target.source_obst, det.sun_moon.sun_moon_cuts)
    # trigger thresholds (0 and negative values are legal: "everything triggers")
    if ch.draw(3, "thresholds") == 2:
        det.radio.snr_threshold = (5.0, 0.0, -1.0, 0.01)[ch.draw(4, "snr_threshold")]
        det.optical.photo_electron_threshold = (10.0, 0.0, 1e5, 1.0)[ch.draw(4, "pe_threshold")]
        d["thresholds"] = (det.radio.snr_threshold, det.optical.photo_electron_threshold)
    if max_events >= 60 and d["mode"] == "Diffuse":
        big = ch.draw(16, "events_special")
        if big == 15 and not det.optical.enable:
            # more survivors than the 8192-element iterator buffer (cheap without the optical stage)
            n = 8500 + ch.draw(9000, "events_huge")
            d["thrown_events"] = sim.thrown_events = n
        elif big == 14:
            # one or two trajectories at the highest energies: the tau usually decays far above
            # the 20 km optical window (survivors exist, none of them gives light)
            n = 1 + ch.draw(2, "events_one_or_two")
            e = (12.0, 11.0)[ch.draw(2, "high_E")]
            d["want_all_decays_outside_optical_window"] = True
            sim.spectrum = Simulation.MonoSpectrum(log_nu_energy=e)
            d["thrown_events"] = sim.thrown_events = n
            d["spectrum"] = f"mono({e})"
    d["rng_seed"] = ch.draw(2**16, "rng_seed")
    return cfg, d
