"""Chooser / choice trace / event log / shrinker / replay / pool runner / evidence / exit protocol.

One integer decides everything: a run is `scenario(ctx)`; every decision of the
scenario is `ctx.ch.draw(n, label)`.  Nothing here reads a wall clock except the
*budget* code of the batch runner (which decides only how many runs are executed, never
what a run does) and the `wall_s` field of the evidence file.
"""

from __future__ import annotations

import hashlib
import json
import os
import random
import sys
import time
import traceback
from collections import Counter


class Violation(Exception):
    """The property is violated.  `check` names the oracle, `sig` is a stable signature
    of the failing site/input used only to match entries of known_findings.txt."""

    def __init__(self, check: str, message: str, sig: str = "", detail=None):
        super().__init__(f"{check}: {message}")
        self.check = check
        self.message = message
        self.sig = sig
        self.detail = detail


class HarnessError(Exception):
    """Something the harness cannot interpret: exit 2, never a VIOLATION."""


# --------------------------------------------------------------------------- chooser


def derive_seed(verif_seed: int, prop: str, family: str, idx: int) -> int:
    h = hashlib.sha256(f"{verif_seed}|{prop}|{family}|{idx}".encode()).digest()
    return int.from_bytes(h[:8], "big")


class Chooser:
    """Search mode: values come from a PRNG seeded by derive_seed; every draw is recorded.
    Replay mode: values come from a list (clamped modulo n; 0 once exhausted)."""

    def __init__(self, seed: int | None = None, values: list[int] | None = None):
        self.replay = values is not None
        self._values = list(values) if values is not None else None
        self._pos = 0
        self._rng = random.Random(seed) if seed is not None else None
        self.trace: list[tuple[str, int, int]] = []

    def draw(self, n: int, label: str) -> int:
        if n <= 1:
            v = 0
        elif self.replay:
            if self._pos < len(self._values):
                v = int(self._values[self._pos]) % n
            else:
                v = 0
            self._pos += 1
        else:
            v = self._rng.randrange(n)
        if n > 1:
            self.trace.append((label, n, v))
        return v

    def flip(self, label: str, num: int = 1, den: int = 2) -> bool:
        """True with probability num/den; value 0 (the simple alternative) is False."""
        return self.draw(den, label) >= den - num

    def pick(self, seq, label: str):
        return seq[self.draw(len(seq), label)]

    def values(self) -> list[int]:
        return [v for (_, _, v) in self.trace]


# --------------------------------------------------------------------------- context


class Ctx:
    """Per-run context handed to a scenario."""

    def __init__(self, prop: str, family: str, idx: int, ch: Chooser, tier: str):
        self.prop = prop
        self.family = family
        self.idx = idx
        self.ch = ch
        self.tier = tier
        self.events: list[str] = []
        self.faults: Counter = Counter()
        self.probes: Counter = Counter()
        self.sim_time = 0.0
        self.steps = 0  # traced steps (crashsim) / operations (histsim)
        self.nontrivial = False
        self.describe: dict = {}  # decoded choices in words, for evidence samples
        self.known = _known()
        self.known_hits: Counter = Counter()

    def violate(self, check: str, message: str, sig: str = "", detail=None) -> None:
        """Raise a Violation unless (property, check, sig) is a listed known finding, in which
        case the hit is counted and the scenario goes on (so that a known finding never hides
        a different violation of the same property)."""
        v = {"check": check, "sig": sig}
        k = match_known(self.prop, v, self.known)
        if k is None:
            raise Violation(check, message, sig, detail)
        self.known_hits[f"{check} {sig}"] += 1

    def log(self, s: str) -> None:
        self.events.append(s)

    def digest(self) -> str:
        h = hashlib.sha256()
        for e in self.events:
            h.update(e.encode())
            h.update(b"\n")
        return h.hexdigest()[:24]


def in_fork(fn, *args):
    """Run fn(*args) in a forked child and return its (pickled) result.

    Run isolation: every run starts from the same process state — the warmed-up pool worker —
    and nothing a run leaves behind at module level (caches, globals, dask's thread pools,
    numpy's generator) can reach another run.  That is what makes a run a function of
    (VERIF_SEED, property, family, index) alone, and a replay in a fresh interpreter (warm-up,
    then the run) the same execution."""
    import pickle

    rfd, wfd = os.pipe()
    pid = os.fork()
    if pid == 0:
        code = 0
        try:
            os.close(rfd)
            try:
                payload = pickle.dumps(("ok", fn(*args)))
            except BaseException:  # noqa: BLE001
                payload = pickle.dumps(("err", traceback.format_exc()))
                code = 0
            with os.fdopen(wfd, "wb") as f:
                f.write(payload)
        except BaseException:  # noqa: BLE001
            code = 5
        finally:
            os._exit(code)
    os.close(wfd)
    chunks = []
    with os.fdopen(rfd, "rb") as f:
        while True:
            b = f.read(1 << 20)
            if not b:
                break
            chunks.append(b)
    _, st = os.waitpid(pid, 0)
    data = b"".join(chunks)
    if not data:
        raise HarnessError(f"isolated run died without a result (wait status {st})")
    kind, val = pickle.loads(data)
    if kind == "err":
        raise HarnessError("isolated run raised:\n" + val)
    return val


def run_isolated(scn, prop, family, idx, ch_spec, tier):
    """run_once in a forked child.  ch_spec: ("seed", int) or ("values", list)."""

    mod = sys.modules.get(scn.__module__)

    def go():
        ch = Chooser(seed=ch_spec[1]) if ch_spec[0] == "seed" else Chooser(values=ch_spec[1])
        r = run_once(scn, prop, family, idx, ch, tier)
        if hasattr(mod, "export_state"):
            r["_state"] = mod.export_state()  # e.g. newly computed (deterministic) oracle values
        return r

    r = in_fork(go)
    st = r.pop("_state", None)
    if st is not None:
        mod.import_state(st)
    return r


_KNOWN_CACHE = []


def _known():
    if not _KNOWN_CACHE:
        _KNOWN_CACHE.append(load_known_findings())
    return _KNOWN_CACHE[0]


def run_once(scn, prop: str, family: str, idx: int, ch: Chooser, tier: str) -> dict:
    """Execute one run.  Returns a JSON-able result dict."""
    ctx = Ctx(prop, family, idx, ch, tier)
    viol = None
    # the RNG seam: numpy's process-global generator never carries state from one run
    # into the next (replay and shrinking re-execute runs in other processes)
    np = sys.modules.get("numpy")
    if np is not None:
        np.random.seed(int.from_bytes(hashlib.sha256(f"rng|{prop}|{family}|{idx}".encode()).digest()[:4], "big"))
    try:
        scn(ctx)
    except Violation as v:
        viol = {"check": v.check, "message": v.message, "sig": v.sig, "detail": v.detail}
        if match_known(prop, viol, ctx.known) is not None:
            ctx.known_hits[f"{v.check} {v.sig}"] += 1
            viol = None
    return {
        "idx": idx,
        "family": family,
        "digest": ctx.digest(),
        "nontrivial": bool(ctx.nontrivial),
        "faults": dict(ctx.faults),
        "probes": dict(ctx.probes),
        "known_hits": dict(ctx.known_hits),
        "sim_time": ctx.sim_time,
        "steps": ctx.steps,
        "violation": viol,
        "describe": ctx.describe,
        "events_head": ctx.events[:30],
        "n_events": len(ctx.events),
        "values": ch.values(),
        "labels": [l for (l, _, _) in ch.trace],
    }


# --------------------------------------------------------------------------- shrinker


def _run_inproc(scn, prop, family, idx, ch_spec, tier):
    ch = Chooser(seed=ch_spec[1]) if ch_spec[0] == "seed" else Chooser(values=ch_spec[1])
    return run_once(scn, prop, family, idx, ch, tier)


def shrink(scn, prop, family, idx, tier, values, check_name, max_runs=200, max_wall=120.0, runner=_run_inproc):
    """Delta-debug the integer list while the same check of the same property fails.

    A candidate is accepted only if the trace *actually drawn* by its run is strictly simpler
    than the best so far by (number of draws, sum of values): changing an early choice can
    make the run draw more, and such candidates are rejected, so shrinking is monotone."""
    t0 = time.monotonic()
    runs = [0]

    def measure(vals):
        return (len(vals), sum(vals))

    def strip(c):
        c = list(c)
        while c and c[-1] == 0:
            c.pop()
        return c

    best = strip(values)
    best_m = measure(best)

    def attempt(cand):
        """Run cand; on success replace best by the trace the run really drew."""
        nonlocal best, best_m
        if runs[0] >= max_runs or time.monotonic() - t0 > max_wall:
            return False
        runs[0] += 1
        try:
            r = runner(scn, prop, family, idx, ("values", cand), tier)
        except Exception:
            return False  # a harness error during shrinking never counts
        if r["violation"] is None or r["violation"]["check"] != check_name:
            return False
        got = strip(r["values"])
        m = measure(got)
        if m < best_m:
            best, best_m = got, m
            return True
        return False

    # 1. truncate the tail (zeros are implied once the trace is exhausted)
    lo, hi = 0, len(best)
    cut = None
    while lo < hi and runs[0] < max_runs:
        mid = (lo + hi) // 2
        base = list(best)
        if attempt(base[:mid]):
            hi = min(mid, len(best))
            lo = 0 if lo > hi else lo
        else:
            lo = mid + 1
    changed = True
    while changed and runs[0] < max_runs and time.monotonic() - t0 <= max_wall:
        changed = False
        # 2. zero blocks, 3. delete blocks
        size = max(1, len(best) // 2)
        while size >= 1 and runs[0] < max_runs:
            i = 0
            while i < len(best) and runs[0] < max_runs:
                if any(best[i : i + size]):
                    cand = best[:i] + [0] * len(best[i : i + size]) + best[i + size :]
                    if attempt(cand):
                        changed = True
                        continue
                cand = best[:i] + best[i + size :]
                if len(cand) < len(best) and any(best[i : i + size]) and attempt(cand):
                    changed = True
                    continue
                i += size
            size //= 2
        # 4. halve / decrement single values
        i = 0
        while i < len(best) and runs[0] < max_runs:
            v = best[i]
            for nv in (0, v // 2, v - 1):
                if 0 <= nv < v:
                    cand = best[:i] + [nv] + best[i + 1 :]
                    if attempt(cand):
                        changed = True
                        break
            i += 1
    return best, runs[0]


# --------------------------------------------------------------------------- replay files


def write_replay(prop, family, idx, verif_seed, tier, result, minimized, shrink_runs, repo_state):
    d = os.path.join(os.path.dirname(os.path.dirname(os.path.abspath(__file__))), "replays")
    os.makedirs(d, exist_ok=True)
    v = minimized["violation"]
    name = f"{prop}-{family}-s{verif_seed}-r{idx}-{v['check']}.json".replace("/", "_")
    path = os.path.join(d, name)
    doc = {
        "property": prop,
        "family": family,
        "verif_seed": verif_seed,
        "run_index": idx,
        "tier": tier,
        "violation": v,
        "values": minimized["values"],
        "labels": minimized["labels"],
        "digest": minimized["digest"],
        "describe": minimized["describe"],
        "events_head": minimized["events_head"],
        "original_values_len": len(result["values"]),
        "shrink_runs": shrink_runs,
        "python_optimize": bool(sys.flags.optimize),
        "repo": repo_state,
    }
    with open(path, "w") as f:
        json.dump(doc, f, indent=1, default=str)
    return path


# --------------------------------------------------------------------------- known findings


def load_known_findings():
    path = os.path.join(os.path.dirname(os.path.dirname(os.path.abspath(__file__))), "known_findings.txt")
    out = []
    if not os.path.exists(path):
        return out
    for line in open(path):
        line = line.strip()
        if not line.startswith("finding:"):
            continue  # 'fixed:' lines and comments suppress nothing
        body = line[len("finding:") :].strip()
        head, _, what = body.partition("::")
        kv = dict(p.split("=", 1) for p in head.split() if "=" in p)
        out.append({"property": kv.get("property"), "check": kv.get("check"), "sig": kv.get("sig"), "what": what.strip()})
    return out


def match_known(prop, viol, known):
    for k in known:
        if k["property"] == prop and k["check"] == viol["check"] and k["sig"] and k["sig"] == viol.get("sig"):
            return k
    return None


# --------------------------------------------------------------------------- worker side

_WORKER = {}
import multiprocessing as _mp

_STOP_LOCK = _mp.get_context("fork").Lock()


def _worker_init(prop, tier, stop_event=None):
    import faulthandler

    _WORKER["stop"] = stop_event

    faulthandler.enable()
    from . import registry

    mod = registry.load(prop)
    mod.warmup(tier)
    _WORKER["mod"] = mod


def run_and_shrink(scn, prop, family, idx, tier, ch_spec, do_shrink=True):
    """One run in a pool worker; the first worker that sees a violation minimises it.
    ch_spec: ("seed", int) | ("values", list).  Runs are isolated in forked children unless
    the property module says ISOLATE = False (C17 isolates per configuration instead)."""
    mod = _WORKER.get("mod")
    stop = _WORKER.get("stop")
    runner = run_isolated if getattr(mod, "ISOLATE", True) else _run_inproc
    r = runner(scn, prop, family, idx, ch_spec, tier)
    first = False
    if r["violation"] is not None:
        if stop is not None:
            with _STOP_LOCK:
                first = not stop.is_set()
                stop.set()
        else:
            first = True
    if r["violation"] is not None and do_shrink and first:
        mr, mw = getattr(mod, "SHRINK", (200, 120.0))
        mv, nruns = shrink(scn, prop, family, idx, tier, r["values"], r["violation"]["check"], mr, mw, runner)
        m = runner(scn, prop, family, idx, ("values", mv), tier)
        if m["violation"] is None or m["violation"]["check"] != r["violation"]["check"]:
            m = runner(scn, prop, family, idx, ("values", r["values"]), tier)
            nruns = -nruns
        if m["violation"] is not None:
            r["minimized"] = m
        r["shrink_runs"] = nruns
    elif r["violation"] is None and idx % 97 != 0:
        # keep results light
        r["events_head"] = r["events_head"][:0]
        r["values"] = []
        r["labels"] = []
    return r


def _worker_run(args):
    prop, family, idxs, verif_seed, tier, do_shrink = args
    import faulthandler

    mod = _WORKER["mod"]
    scn = mod.FAMILIES[family]
    stop = _WORKER.get("stop")
    out = []
    for idx in idxs:
        if stop is not None and stop.is_set():
            break
        faulthandler.dump_traceback_later(900, exit=True)
        try:
            out.append(run_and_shrink(scn, prop, family, idx, tier, ("seed", derive_seed(verif_seed, prop, family, idx)), do_shrink))
        except Exception:
            out.append({"idx": idx, "family": family, "harness_error": traceback.format_exc()})
        finally:
            faulthandler.cancel_dump_traceback_later()
    return out


# --------------------------------------------------------------------------- batch runner


def nworkers():
    try:
        n = len(os.sched_getaffinity(0))
    except Exception:
        n = os.cpu_count() or 1
    return max(1, min(16, n, int(os.environ.get("VERIF_WORKERS", "16"))))


def run_batch(prop, plan, verif_seed, tier, wall_budget, stop_on_violation=True):
    """plan: list of (family, n_runs, chunk).  Returns (results, harness_errors, wall).

    Run indices are dealt in small chunks; what a run does depends only on
    (verif_seed, prop, family, idx)."""
    tasks = []
    for family, n, chunk in plan:
        for s in range(0, n, chunk):
            tasks.append((prop, family, list(range(s, min(n, s + chunk))), verif_seed, tier, True))
    # interleave families so a wall cut-off still samples all of them
    tasks.sort(key=lambda t: (t[2][0] / max(1, next(n for f, n, c in plan if f == t[1])), t[1]))
    return run_tasks(prop, tier, tasks, _worker_run, wall_budget, stop_on_violation)


def run_tasks(prop, tier, tasks, task_fn, wall_budget, stop_on_violation=True):
    import multiprocessing as mp
    from concurrent.futures import ProcessPoolExecutor, wait, FIRST_COMPLETED

    t0 = time.monotonic()
    results, herrs = [], []
    nw = nworkers()
    ctx = mp.get_context("fork")
    stop_event = ctx.Event() if stop_on_violation else None
    with ProcessPoolExecutor(max_workers=nw, mp_context=ctx, initializer=_worker_init, initargs=(prop, tier, stop_event)) as ex:
        pending = set()
        it = iter(tasks)
        stop = False

        def feed():
            while len(pending) < nw * 2 and not stop:
                try:
                    t = next(it)
                except StopIteration:
                    return
                pending.add(ex.submit(task_fn, t))

        feed()
        while pending:
            done, _ = wait(pending, timeout=1200, return_when=FIRST_COMPLETED)
            if not done:
                herrs.append("pool made no progress for 1200 s")
                break
            for f in done:
                pending.discard(f)
                try:
                    for r in f.result():
                        if "harness_error" in r:
                            herrs.append(r["harness_error"])
                        else:
                            results.append(r)
                            if r["violation"] is not None and stop_on_violation:
                                stop = True
                except Exception as e:
                    herrs.append(f"worker died: {e!r}")
                    stop = True
            if time.monotonic() - t0 > wall_budget:
                stop = True
            if herrs:
                stop = True
            feed()
        if stop:
            for f in pending:
                f.cancel()
    results.sort(key=lambda r: (r["family"], r["idx"]))
    return results, herrs, time.monotonic() - t0


# --------------------------------------------------------------------------- evidence


def write_evidence(prop, tier, verif_seed, level, results, wall, meta, violations, known_hits):
    from . import env

    ev_dir = os.path.join(env.VERIF_DIR, "evidence")
    os.makedirs(ev_dir, exist_ok=True)
    faults, probes = Counter(), Counter()
    digests = set()
    per_family = Counter()
    sim_time = 0.0
    steps = 0
    for r in results:
        faults.update(r["faults"])
        probes.update(r["probes"])
        per_family[r["family"]] += 1
        sim_time += r["sim_time"]
        steps += r["steps"]
        if r["nontrivial"]:
            digests.add((r["family"], r["digest"]))
    samples = []
    seen_f = Counter()
    for r in results:
        if r.get("events_head") and seen_f[r["family"]] < 2 and len(samples) < 6:
            seen_f[r["family"]] += 1
            samples.append(
                {
                    "family": r["family"],
                    "run_index": r["idx"],
                    "run_seed": derive_seed(verif_seed, prop, r["family"], r["idx"]),
                    "choices_in_words": r["describe"],
                    "n_choices": len(r["values"]),
                    "first_events": r["events_head"],
                    "n_events": r["n_events"],
                    "digest": r["digest"],
                    "faults_fired": r["faults"],
                }
            )
    n = len(results)
    cov = {
        "evaluations": n,
        "distinct_nontrivial": len(digests),
        "rule": meta["rule"],
        "samples": samples,
        "runs_per_hour": int(n / wall * 3600) if wall > 0 else 0,
        "runs_per_family": dict(per_family),
        "seeds": {
            "verif_seed": verif_seed,
            "derivation": "sha256(VERIF_SEED|property|family|run_index)[:8]",
            "first_run_seed": derive_seed(verif_seed, prop, results[0]["family"], results[0]["idx"]) if results else None,
            "last_run_seed": derive_seed(verif_seed, prop, results[-1]["family"], results[-1]["idx"]) if results else None,
        },
        "faults": dict(faults),
        "probes": dict(probes),
        "components_real": meta["components_real"],
        "components_simulated": meta["components_simulated"],
        "workers": nworkers(),
        "zsteps": env._state["zsteps"],
        "repo": env.repo_state(),
        "known_findings_hit": known_hits,
        "run_isolation": "every run executes in a forked child of the warmed-up pool worker (C17: per configuration, fault runs fork again); "
                         "module-level state never carries from one run to another",
        "planned_runs": meta.get("planned_runs"),
        "python_optimize_pass": meta.get("python_optimize_pass"),
    }
    cov[meta.get("time_key", "sim_time_s")] = round(sim_time, 3) if meta.get("time_key", "sim_time_s") == "sim_time_s" else steps
    cov.update(meta.get("extra", {}))
    doc = {
        "property_id": prop,
        "tier": tier,
        "seed": int(verif_seed),
        "level": level,
        "coverage": cov,
        "assumptions": meta["assumptions"],
        "wall_s": round(wall, 2),
        "violations": violations,
    }
    path = os.path.join(ev_dir, f"{prop}.json")
    tmp = path + ".tmp"
    with open(tmp, "w") as f:
        json.dump(doc, f, indent=1, default=str)
    os.replace(tmp, path)
    # validate against the schema when jsonschema is importable (it is not in /venv by
    # default; the structural requirements are also asserted by hand here)
    assert n >= 1 and isinstance(cov["samples"], list) and cov["samples"], "evidence: no runs / no samples"
    try:
        import jsonschema  # type: ignore

        schema = json.load(open("/root/.vp/EVIDENCE.schema.json"))
        jsonschema.validate(doc, schema)
    except ImportError:
        pass
    except FileNotFoundError:
        pass
    return path
